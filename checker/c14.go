package main

import (
	"fmt"
	"go/constant"
	"go/token"
	"go/types"
	"os"
	"sort"
	"strings"

	"golang.org/x/tools/go/ssa"
)

func init() {
	register("C14", "Variable coercion: (R1) reflect typestate — every reflect.Value method that panics on the zero Value (Type, Interface, Len, Index, MapKeys, MapIndex, SetMapIndex, IsNil, Elem) or on the wrong kind (Len, Index, Map*, IsNil, Elem) is preceded on every path by a validity / kind examination that excludes the panic (path-sensitive facts on IsValid(), Kind()==K, IsNil(); values from Elem() of a possibly nil pointer/interface and from MapIndex are possibly invalid; requirements on parameters are checked at call sites); (R2) nil safety of the coercer under the precondition that the operation passed validation, and its two panics are the 'missing definition' closure case and the default of a kind switch that covers exactly the input kinds; (R3) null is accepted only for nullable types: every success return of the coercer with a possibly invalid value, and every nil stored in the result, lies under NonNull == false; (R4) every value stored in the result map is nil (R3) or the coercer's result for that variable — defaults included; (R5) the success returns of the list case and of the input-object case cannot skip the element loop, the unknown-field loop or the per-field loop; (R6) recursion passes the child's own type (typ.Elem / fieldDef.Type); (R7) the per-field loop of the input-object case moves on without coercing a declared field only on paths where the field is absent from the input (MapIndex result known invalid) or its declared type is known nullable. (R9) index and slice expressions reachable from VariableValues are in bounds (engine of C02.R6); (R10) every path through one iteration of the loop over the variable definitions that ends with the variable supplied (an explicit null included) or defaulted has written result[name]. (R2 also) no single-result type assertion on a reflect Interface() value.", runC14)
}

// reflect method tables
var reflNeedValid = map[string]bool{"Type": true, "Interface": true, "Len": true, "Index": true, "MapKeys": true, "MapIndex": true, "SetMapIndex": true, "IsNil": true, "Elem": true,
	"Int": true, "Float": true, "Bool": true, "Uint": true, "Field": true, "NumField": true, "MapRange": true, "Cap": true, "Slice": true, "Set": true, "Convert": true}
var reflNeedKind = map[string][]string{
	"Len":         {"Array", "Chan", "Map", "Slice", "String"},
	"Index":       {"Array", "Slice", "String"},
	"MapKeys":     {"Map"},
	"MapIndex":    {"Map"},
	"SetMapIndex": {"Map"},
	"MapRange":    {"Map"},
	"IsNil":       {"Chan", "Func", "Interface", "Map", "Ptr", "Pointer", "Slice", "UnsafePointer"},
	"Elem":        {"Interface", "Ptr", "Pointer"},
}

type reflState struct {
	c            *Ctx
	na           *nilAnalysis
	kinds        map[string]int64 // name -> constant
	names        map[int64]string
	retFromParam map[*ssa.Function]int
	retValidMemo map[*ssa.Function]bool
	predMemo     map[*ssa.Function]map[bool][][]Cond
}

func isReflectValue(t types.Type) bool {
	n := namedOf(t)
	return n != nil && n.Obj().Pkg() != nil && n.Obj().Pkg().Path() == "reflect" && n.Obj().Name() == "Value" && !isPointerLike(t)
}

func reflKey(v ssa.Value) string {
	v = stripChange(v)
	if prm, ok := v.(*ssa.Parameter); ok {
		return "p:" + prm.Name()
	}
	if u, ok := v.(*ssa.UnOp); ok && u.Op == token.MUL {
		if a, ok := u.X.(*ssa.Alloc); ok {
			sts := storesTo(a)
			if len(sts) == 1 {
				return reflKey(sts[0])
			}
			return "alloc:" + a.Name()
		}
	}
	return "v:" + v.Name()
}

// reflMethod: in is a call of reflect.Value.<name>; returns the receiver.
func reflMethod(in ssa.Instruction) (name string, recv ssa.Value, call *ssa.Call, ok bool) {
	c, isCall := in.(*ssa.Call)
	if !isCall {
		return
	}
	g := c.Call.StaticCallee()
	if g == nil || g.Signature.Recv() == nil || !isReflectValue(g.Signature.Recv().Type()) || len(c.Call.Args) == 0 {
		return
	}
	return g.Name(), c.Call.Args[0], c, true
}

func (rs *reflState) copyFacts(n disj, d disj, from, to string) {
	for k, v := range d {
		switch {
		case k == "rv:"+from:
			n["rv:"+to] = v
		case k == "rn:"+from:
			n["rn:"+to] = v
		case strings.HasPrefix(k, "rk:"+from+":"):
			n["rk:"+to+k[len("rk:"+from):]] = v
		}
	}
}

func (rs *reflState) clearFacts(n disj, key string) {
	for k := range n {
		if k == "rv:"+key || k == "rn:"+key || strings.HasPrefix(k, "rk:"+key+":") {
			delete(n, k)
		}
	}
}

// valid: 1 valid, 0 invalid, -1 unknown
func (rs *reflState) valid(d disj, key string) int8 {
	if v, ok := d["rv:"+key]; ok {
		return v
	}
	for k, v := range d {
		if v == 1 && strings.HasPrefix(k, "rk:"+key+":") {
			return 1 // a known non-Invalid kind
		}
	}
	return -1
}

func (rs *reflState) install() {
	na := rs.na
	na.hookRefine = func(d disj, c Cond) (disj, bool) {
		// v.IsValid(), v.IsNil() as conditions
		if call, ok := c.V.(*ssa.Call); ok {
			if name, recv, _, ok := reflMethod(call); ok {
				val := int8(0)
				if c.True {
					val = 1
				}
				switch name {
				case "IsValid":
					n := d.clone()
					if !n.set("rv:"+reflKey(recv), val) {
						return nil, true
					}
					return n, true
				case "IsNil":
					n := d.clone()
					if !n.set("rn:"+reflKey(recv), val) {
						return nil, true
					}
					return n, true
				}
			}
			return d, false
		}
		bo, ok := c.V.(*ssa.BinOp)
		if !ok || (bo.Op != token.EQL && bo.Op != token.NEQ) {
			// a bool field of a *ast.Type used directly as a condition: typ.NonNull
			if st, f, ok := fieldLoadOf(c.V); ok && st == "Type" && f == "NonNull" {
				n := d.clone()
				val := int8(0)
				if c.True {
					val = 1
				}
				if !n.set("nn:"+typeBasePath(c.V), val) {
					return nil, true
				}
				return n, true
			}
			return d, false
		}
		// Kind() == K
		var kcall ssa.Value
		var kc *ssa.Const
		if cst, ok := bo.Y.(*ssa.Const); ok {
			kcall, kc = bo.X, cst
		} else if cst, ok := bo.X.(*ssa.Const); ok {
			kcall, kc = bo.Y, cst
		}
		if kc == nil || kc.Value == nil || kc.Value.Kind() != constant.Int {
			return d, false
		}
		recv := rs.kindReceiver(kcall)
		if recv == nil {
			return d, false
		}
		k, _ := constant.Int64Val(kc.Value)
		isEq := (bo.Op == token.EQL) == c.True
		n := d.clone()
		key := fmt.Sprintf("rk:%s:%d", reflKey(recv), k)
		if isEq {
			// contradiction with another known kind
			for kk, v := range d {
				if v == 1 && strings.HasPrefix(kk, "rk:"+reflKey(recv)+":") && kk != key {
					return nil, true
				}
			}
			if !n.set(key, 1) {
				return nil, true
			}
			if k != 0 {
				if !n.set("rv:"+reflKey(recv), 1) {
					return nil, true
				}
			}
		} else {
			if !n.set(key, 0) {
				return nil, true
			}
		}
		return n, true
	}
	// a helper predicate over reflect.Values (`isPtrOrInterface(v)`): each path through it that yields the outcome refines
	// the caller's facts about the argument as the same tests written in place would
	na.hookPredicate = func(d disj, c Cond) ([]disj, bool) {
		call, ok := c.V.(*ssa.Call)
		if !ok {
			return nil, false
		}
		if _, _, _, isRM := reflMethod(call); isRM {
			return nil, false
		}
		g := call.Call.StaticCallee()
		if g == nil || !rs.c.P.inModule(g) || len(g.Blocks) == 0 || g.Signature.Results().Len() != 1 || !isBoolType(g.Signature.Results().At(0).Type()) {
			return nil, false
		}
		hasRV := false
		for _, prm := range g.Params {
			if isReflectValue(prm.Type()) {
				hasRV = true
			}
		}
		if !hasRV {
			return nil, false
		}
		exp := rs.predicatePaths(g)
		if exp == nil {
			return nil, false
		}
		var out []disj
		for _, seq := range exp[c.True] {
			n := d.clone()
			// the helper's parameter may be named like a value of the caller: the caller's facts under that key are set
			// aside while the helper's conditions are applied
			for i, prm := range g.Params {
				if isReflectValue(prm.Type()) && i < len(call.Call.Args) {
					pk := reflKey(prm)
					rs.clearFacts(n, "saved$"+pk)
					rs.copyFacts(n, d, pk, "saved$"+pk)
					rs.clearFacts(n, pk)
					rs.copyFacts(n, d, reflKey(call.Call.Args[i]), pk)
				}
			}
			feasible := true
			for _, cd := range seq {
				n2, handled := na.hookRefine(n, cd)
				if !handled {
					continue
				}
				if n2 == nil {
					feasible = false
					break
				}
				n = n2
			}
			if !feasible {
				continue
			}
			for i, prm := range g.Params {
				if isReflectValue(prm.Type()) && i < len(call.Call.Args) {
					ak, pk := reflKey(call.Call.Args[i]), reflKey(prm)
					tmp := n.clone()
					if ak != pk {
						rs.clearFacts(n, ak)
						rs.copyFacts(n, tmp, pk, ak)
						rs.clearFacts(n, pk)
						rs.copyFacts(n, tmp, "saved$"+pk, pk)
					}
					rs.clearFacts(n, "saved$"+pk)
				}
			}
			out = append(out, n)
		}
		return out, true
	}
	// a helper's interface / pointer parameter is non-nil when every call site lies on the non-nil side of a nil test
	// of the very argument (the caller tested, the helper converts)
	na.hookEntry = func(fn *ssa.Function, init disj) {
		calls := na.callers[fn]
		if len(calls) == 0 || fn.Parent() != nil {
			return
		}
		for i, prm := range fn.Params {
			if !isPointerLike(prm.Type()) && !types.IsInterface(prm.Type()) {
				continue
			}
			all := true
			for _, ci := range calls {
				if i >= len(ci.Common().Args) {
					all = false
					break
				}
				arg := stripChange(ci.Common().Args[i])
				okSite := false
				for _, cd := range condsAt(ci.Block()) {
					bo, ok := cd.V.(*ssa.BinOp)
					if !ok || (bo.Op != token.EQL && bo.Op != token.NEQ) {
						continue
					}
					var other ssa.Value
					if isNilConst(bo.Y) {
						other = bo.X
					} else if isNilConst(bo.X) {
						other = bo.Y
					}
					if other == nil || stripChange(other) != arg {
						continue
					}
					if (bo.Op == token.NEQ) == cd.True {
						okSite = true
					}
				}
				if !okSite {
					all = false
				}
			}
			if all {
				init[accessPath(prm)] = 1
			}
		}
	}
	na.hookPhi = func(n disj, d disj, ph *ssa.Phi, edge ssa.Value) {
		if !isReflectValue(ph.Type()) {
			return
		}
		to := "v:" + ph.Name()
		rs.clearFacts(n, to)
		rs.copyFacts(n, d, reflKey(edge), to)
	}
	na.hookTransfer = func(st nstate, in ssa.Instruction) nstate {
		v, isVal := in.(ssa.Value)
		if !isVal {
			return st
		}
		// results that are reflect.Values
		setAll := func(f func(n disj, d disj)) nstate {
			out := make(nstate, 0, len(st))
			for _, d := range st {
				n := d.clone()
				f(n, d)
				out = append(out, n)
			}
			return out
		}
		if name, recv, call, ok := reflMethod(in); ok {
			rk := reflKey(recv)
			// surviving a panicking method: the receiver was valid
			st2 := st
			if reflNeedValid[name] {
				st2 = setAll(func(n, d disj) { n["rv:"+rk] = 1 })
				st = st2
			}
			if isReflectValue(call.Type()) {
				key := reflKey(call)
				switch name {
				case "Elem":
					return setAll(func(n, d disj) {
						rs.clearFacts(n, key)
						if d["rn:"+rk] == 0 {
							if _, ok := d["rn:"+rk]; ok {
								n["rv:"+key] = 1
							}
						}
					})
				case "Index", "Field", "Slice", "Convert":
					return setAll(func(n, d disj) { rs.clearFacts(n, key); n["rv:"+key] = 1 })
				case "MapIndex":
					return setAll(func(n, d disj) { rs.clearFacts(n, key) })
				}
			}
			return st
		}
		if call, ok := in.(*ssa.Call); ok && isReflectValue(call.Type()) {
			nm := calleeName(call)
			key := reflKey(call)
			switch nm {
			case "reflect.ValueOf":
				return setAll(func(n, d disj) {
					rs.clearFacts(n, key)
					if rs.na.evalNil(call.Call.Args[0], d) == 1 || isNonNilInterface(call.Call.Args[0]) {
						n["rv:"+key] = 1
					}
					// ValueOf never yields Kind Interface; JSON-like variable values contain no pointers (assumption)
					n[fmt.Sprintf("rk:%s:%d", key, rs.kinds["Interface"])] = 0
					n[fmt.Sprintf("rk:%s:%d", key, rs.kinds["Ptr"])] = 0
				})
			case "reflect.MakeSlice", "reflect.Append", "reflect.AppendSlice":
				return setAll(func(n, d disj) {
					rs.clearFacts(n, key)
					n["rv:"+key] = 1
					n[fmt.Sprintf("rk:%s:%d", key, rs.kinds["Slice"])] = 1
				})
			case "reflect.Zero", "reflect.New", "reflect.MakeMap", "reflect.Indirect":
				return setAll(func(n, d disj) { rs.clearFacts(n, key); n["rv:"+key] = 1 })
			}
		}
		// first result of an in-module function that returns its reflect.Value parameter (or fresh valid values)
		if ex, ok := v.(*ssa.Extract); ok && isReflectValue(ex.Type()) && ex.Index == 0 {
			if call, ok := ex.Tuple.(*ssa.Call); ok {
				if g := call.Call.StaticCallee(); g != nil {
					if j, ok := rs.retParam(g); ok {
						key := reflKey(ex)
						arg := call.Call.Args[j]
						return setAll(func(n, d disj) {
							rs.clearFacts(n, key)
							if rs.valid(d, reflKey(arg)) == 1 {
								n["rv:"+key] = 1
							}
							// the result is the argument or a fresh ValueOf / MakeSlice / Append value, none of which has
							// kind Ptr or Interface: what is known of the argument in that respect holds for the result
							for _, kn := range []string{"Interface", "Ptr"} {
								if v, ok := d[fmt.Sprintf("rk:%s:%d", reflKey(arg), rs.kinds[kn])]; ok && v == 0 {
									n[fmt.Sprintf("rk:%s:%d", key, rs.kinds[kn])] = 0
								}
							}
						})
					}
					if rs.retValid(g) {
						key := reflKey(ex)
						return setAll(func(n, d disj) {
							rs.clearFacts(n, key)
							n["rv:"+key] = 1
							n[fmt.Sprintf("rk:%s:%d", key, rs.kinds["Interface"])] = 0
							n[fmt.Sprintf("rk:%s:%d", key, rs.kinds["Ptr"])] = 0
						})
					}
				}
			}
		}
		return st
	}
}

func isNonNilInterface(v ssa.Value) bool {
	_, ok := v.(*ssa.MakeInterface)
	return ok
}

// typeBasePath: for a load of <T>.NonNull returns the access path of T.
func typeBasePath(v ssa.Value) string {
	v = unspill(stripChange(v))
	if u, ok := v.(*ssa.UnOp); ok {
		if fa, ok := u.X.(*ssa.FieldAddr); ok {
			return accessPath(fa.X)
		}
	}
	return "?"
}

// kindReceiver: v is R.Kind() or R.Type().Kind(): returns R.
func (rs *reflState) kindReceiver(v ssa.Value) ssa.Value {
	call, ok := v.(*ssa.Call)
	if !ok {
		return nil
	}
	if name, recv, _, ok := reflMethod(call); ok && name == "Kind" {
		return recv
	}
	// reflect.Type.Kind() invoked on R.Type()
	if call.Call.IsInvoke() && call.Call.Method.Name() == "Kind" {
		if tc, ok := call.Call.Value.(*ssa.Call); ok {
			if name, recv, _, ok := reflMethod(tc); ok && name == "Type" {
				return recv
			}
		}
	}
	return nil
}

// retValid: on every success return of g (error result nil) the first result is a valid reflect.Value — decided by
// analysing g under its entry facts (hookEntry).
func (rs *reflState) retValid(g *ssa.Function) bool {
	if v, ok := rs.retValidMemo[g]; ok {
		return v
	}
	if rs.retValidMemo == nil {
		rs.retValidMemo = map[*ssa.Function]bool{}
	}
	rs.retValidMemo[g] = false
	if len(g.Blocks) == 0 || g.Signature.Results().Len() < 1 || !isReflectValue(g.Signature.Results().At(0).Type()) || !rs.na.scope[g] {
		return false
	}
	okAll := true
	n := 0
	for _, ret := range returnsOf(g) {
		rv := returnValues(ret)
		if len(rv) > 1 && !isNilConst(stripConv(rv[len(rv)-1])) {
			continue // an error return: the caller does not use the value
		}
		n++
		st := rs.na.stateAt(ret)
		if st == nil {
			continue
		}
		for _, d := range st {
			if rs.valid(d, reflKey(rv[0])) != 1 {
				okAll = false
			}
		}
	}
	res := okAll && n > 0
	rs.retValidMemo[g] = res
	return res
}

// retParam: g's first result is, on every return, its reflect.Value parameter j or a fresh valid value.
func (rs *reflState) retParam(g *ssa.Function) (int, bool) {
	if j, ok := rs.retFromParam[g]; ok {
		return j, j >= 0
	}
	rs.retFromParam[g] = -1
	if len(g.Blocks) == 0 || g.Signature.Results().Len() == 0 || !isReflectValue(g.Signature.Results().At(0).Type()) {
		return -1, false
	}
	j := -1
	okAll := true
	var visit func(v ssa.Value, seen map[ssa.Value]bool)
	visit = func(v ssa.Value, seen map[ssa.Value]bool) {
		if seen[v] {
			return
		}
		seen[v] = true
		switch x := v.(type) {
		case *ssa.Parameter:
			idx := paramIndex(g, x)
			if j >= 0 && j != idx {
				okAll = false
			}
			j = idx
		case *ssa.Phi:
			for _, e := range x.Edges {
				visit(e, seen)
			}
		case *ssa.Call:
			nm := calleeName(x)
			if nm == "reflect.ValueOf" && len(x.Call.Args) == 1 {
				// ValueOf of a value that is not itself an interface or pointer (a number, a string) is always valid
				if mi, ok := x.Call.Args[0].(*ssa.MakeInterface); ok {
					switch mi.X.Type().Underlying().(type) {
					case *types.Basic:
						return
					}
				}
			}
			if nm != "reflect.MakeSlice" && nm != "reflect.Append" {
				okAll = false
			}
		case *ssa.Extract:
			// the first result of a helper that itself hands its parameter back (a case split off into a method)
			call, isCall := x.Tuple.(*ssa.Call)
			if !isCall || x.Index != 0 {
				okAll = false
				return
			}
			h := call.Call.StaticCallee()
			if h == nil || h == g {
				if h == nil {
					okAll = false
				}
				return
			}
			if jj, ok := rs.retParam(h); ok && jj < len(call.Call.Args) {
				visit(call.Call.Args[jj], seen)
			} else {
				okAll = false
			}
		default:
			okAll = false
		}
	}
	for _, ret := range returnsOf(g) {
		visit(returnValues(ret)[0], map[ssa.Value]bool{})
		if os.Getenv("GQLVET_DEBUG") != "" {
			fmt.Fprintf(os.Stderr, "retParam %s: %T %s ok=%v j=%d\n", g.Name(), ret.Results[0], ret.Results[0].Name(), okAll, j)
		}
	}
	if okAll && j >= 0 {
		rs.retFromParam[g] = j
		return j, true
	}
	return -1, false
}

func runC14(c *Ctx) {
	p := c.P
	vv := p.Func("validator.VariableValues")
	vt := p.Func("validator.(*varValidator).validateVarType")
	r1 := c.Rule("R1", "reflect typestate: no method that panics on a zero Value or a wrong kind is reachable unexamined", 15)
	if vv == nil || vt == nil {
		r1.AnchorLost("validator.VariableValues / validateVarType")
		return
	}
	// the coercer: validateVarType and the functions of its package it hands a case to (those that call it back)
	coercer := []*ssa.Function{vt}
	{
		reachesVT := map[*ssa.Function]int{}
		var reach func(f *ssa.Function, depth int) bool
		reach = func(f *ssa.Function, depth int) bool {
			if f == vt {
				return true
			}
			if depth > 4 || f == nil || len(f.Blocks) == 0 || f.Pkg != vt.Pkg {
				return false
			}
			switch reachesVT[f] {
			case 1:
				return false
			case 2:
				return true
			case 3:
				return false
			}
			reachesVT[f] = 1
			res := false
			allInstrs(f, func(in ssa.Instruction) {
				if ci, ok := in.(ssa.CallInstruction); ok && !res {
					if g := ci.Common().StaticCallee(); g != nil && reach(g, depth+1) {
						res = true
					}
				}
			})
			if res {
				reachesVT[f] = 2
			} else {
				reachesVT[f] = 3
			}
			return res
		}
		seen := map[*ssa.Function]bool{vt: true}
		for i := 0; i < len(coercer); i++ {
			allInstrs(coercer[i], func(in ssa.Instruction) {
				if ci, ok := in.(ssa.CallInstruction); ok {
					if g := ci.Common().StaticCallee(); g != nil && !seen[g] && g != vv && g.Pkg == vt.Pkg && reach(g, 0) {
						seen[g] = true
						coercer = append(coercer, g)
					}
				}
			})
		}
	}
	scope := map[*ssa.Function]bool{}
	for f := range p.reachableFrom([]*ssa.Function{vv}, nil) {
		if p.inModule(f) {
			scope[f] = true
		}
	}
	for _, fn := range p.FuncsIn("validator") {
		if strings.HasSuffix(p.Fset.Position(rootFunc(fn).Pos()).Filename, "validator/vars.go") {
			scope[fn] = true
		}
	}
	na := newNilAnalysis(p, scope)
	na.validated = true
	rs := &reflState{c: c, na: na, kinds: map[string]int64{}, names: map[int64]string{}, retFromParam: map[*ssa.Function]int{}}
	if rp := p.SSA.ImportedPackage("reflect"); rp != nil {
		for _, nm := range rp.Pkg.Scope().Names() {
			if cst, ok := rp.Pkg.Scope().Lookup(nm).(*types.Const); ok {
				if n := namedOf(cst.Type()); n != nil && n.Obj().Name() == "Kind" {
					k, _ := constant.Int64Val(cst.Val())
					rs.kinds[nm] = k
					rs.names[k] = nm
				}
			}
		}
	}
	if len(rs.kinds) == 0 {
		r1.AnchorLost("constants of reflect.Kind")
		return
	}
	rs.install()
	// R7 asks, at the skip edges of the per-field loop, whether the supplied field value was valid: keep those facts
	na.pinned = map[string]bool{}
	for _, cf := range coercer {
		cf := cf
		allInstrs(cf, func(in ssa.Instruction) {
			if name, _, call, ok := reflMethod(in); ok && name == "MapIndex" {
				na.pinned[cf.Name()+"/"+call.Name()] = true
			}
		})
	}
	c.Assume("variable values are JSON-like (nil, bool, numbers, json.Number, strings, slices, maps): reflect.ValueOf of such a value never has kind Ptr or Interface (a typed nil pointer at top level is outside the property's quantifier)")

	// obligations
	var fns []*ssa.Function
	for f := range scope {
		fns = append(fns, f)
	}
	sort.Slice(fns, func(i, j int) bool { return p.FuncName(fns[i]) < p.FuncName(fns[j]) })
	type req struct {
		fn   *ssa.Function
		idx  int
		what string
		kind []string
	}
	var lifted []req
	for _, fn := range fns {
		allInstrs(fn, func(in ssa.Instruction) {
			name, recv, _, ok := reflMethod(in)
			if !ok || (!reflNeedValid[name] && reflNeedKind[name] == nil) {
				return
			}
			st := na.stateAt(in)
			if st == nil {
				return
			}
			key := reflKey(recv)
			site := fmt.Sprintf("%s: %s.%s()", p.FuncName(fn), strings.TrimPrefix(strings.TrimPrefix(key, "p:"), "v:"), name)
			// validity
			okValid := true
			for _, d := range st {
				if rs.valid(d, key) != 1 {
					okValid = false
				}
			}
			okKind := true
			if ks := reflNeedKind[name]; ks != nil {
				for _, d := range st {
					has := false
					for _, kn := range ks {
						if kv, ok := rs.kinds[kn]; ok && d[fmt.Sprintf("rk:%s:%d", key, kv)] == 1 {
							has = true
						}
					}
					if !has {
						okKind = false
					}
				}
			}
			if okValid && okKind {
				r1.OK(site+" at "+p.Pos(in.Pos()), "validity and kind established on every path")
				return
			}
			// a bare parameter: the caller's obligation
			if prm, isP := stripChange(recv).(*ssa.Parameter); isP {
				lifted = append(lifted, req{fn, paramIndex(fn, prm), name, reflNeedKind[name]})
				return
			}
			if !okValid {
				r1.Fail(in.Pos(), p.FuncName(fn), fmt.Sprintf("%s.%s() on a possibly invalid Value", displayKey(recv), name), fmt.Sprintf("reflect.Value.%s panics on the zero Value; on some path the value (from Elem() of a nil pointer/interface, from MapIndex, or a parameter bound to one) has not been examined with IsValid() or a kind test: a null at this position (e.g. [[Int]] given [null]) makes coercion panic", name))
				return
			}
			r1.Fail(in.Pos(), p.FuncName(fn), fmt.Sprintf("%s.%s() without a kind test", displayKey(recv), name), fmt.Sprintf("reflect.Value.%s panics unless the kind is one of %v; no test on every path establishes that", name, reflNeedKind[name]))
		})
	}
	// lifted requirements on parameters
	seen := map[string]bool{}
	for _, rq := range lifted {
		k := fmt.Sprintf("%p:%d:%s", rq.fn, rq.idx, rq.what)
		if seen[k] {
			continue
		}
		seen[k] = true
		calls := na.callers[rq.fn]
		exported := rq.fn.Object() != nil && rq.fn.Object().Exported() && rq.fn.Signature.Recv() == nil
		if len(calls) == 0 && !exported {
			r1.Fail(rq.fn.Pos(), p.FuncName(rq.fn), "parameter used with "+rq.what+"() unexamined and no caller found", "cannot discharge the requirement on the parameter")
			continue
		}
		for _, ci := range calls {
			st := na.stateAt(ci)
			if st == nil {
				continue
			}
			arg := ci.Common().Args[rq.idx]
			key := reflKey(arg)
			okV := true
			for _, d := range st {
				if rs.valid(d, key) != 1 {
					okV = false
				}
				if rq.kind != nil {
					has := false
					for _, kn := range rq.kind {
						if kv, ok := rs.kinds[kn]; ok && d[fmt.Sprintf("rk:%s:%d", key, kv)] == 1 {
							has = true
						}
					}
					if !has {
						okV = false
					}
				}
			}
			site := fmt.Sprintf("%s passes %s to %s (which calls %s() on it)", p.FuncName(ci.Parent()), displayKey(arg), p.FuncName(rq.fn), rq.what)
			if okV {
				r1.OK(site, "valid at the call site")
			} else {
				r1.Fail(ci.Pos(), p.FuncName(ci.Parent()), fmt.Sprintf("possibly invalid Value passed to %s, which calls %s() on it unexamined", p.FuncName(rq.fn), rq.what), fmt.Sprintf("%s calls reflect.Value.%s on its parameter without examining it, and this call site can pass the zero Value (a null reached through Elem() or MapIndex): coercion panics instead of returning an error", p.FuncName(rq.fn), rq.what))
			}
		}
	}

	// ---- R2 nil safety under the validated-operation precondition + panics
	r2 := c.Rule("R2", "nil safety of the coercer for validated operations; panics classified", 5)
	fs, checked := na.findings()
	for _, f := range fs {
		r2.Fail(f.in.Pos(), p.FuncName(f.fn), f.key[strings.Index(f.key, "|")+2:], fmt.Sprintf("%s and is dereferenced here without a nil test on every path (validated-operation precondition applied)", f.why))
	}
	for i := 0; i < checked-len(fs); i++ {
		r2.Instances++
		r2.Discharged++
	}
	r2.Samples = append(r2.Samples, fmt.Sprintf("%d dereferences of possibly-nil values in the coercer are guarded (links of validated documents are non-nil by precondition)", checked-len(fs)))
	// a single-result type assertion panics when the dynamic type differs. What comes out of reflect.Value.Interface() is
	// the caller's value: its Kind may have been tested, its type has not (json.Number and every named string type have
	// kind String) — only the comma-ok form and type switches are total there.
	nAssert := 0
	for _, fn := range fns {
		allInstrs(fn, func(in ssa.Instruction) {
			ta, ok := in.(*ssa.TypeAssert)
			if !ok || ta.CommaOk {
				return
			}
			src := unspill(stripChange(ta.X))
			fromReflect := false
			if call, ok := src.(*ssa.Call); ok {
				if g := call.Common().StaticCallee(); g != nil && g.Pkg != nil && g.Pkg.Pkg.Path() == "reflect" && g.Name() == "Interface" {
					fromReflect = true
				}
			}
			if !fromReflect {
				return
			}
			// the same test made in comma-ok form on the way here
			for _, cd := range condsAt(ta.Block()) {
				if ex, ok := cd.V.(*ssa.Extract); ok && ex.Index == 1 && cd.True {
					if t2, ok := ex.Tuple.(*ssa.TypeAssert); ok && t2.CommaOk && unspill(stripChange(t2.X)) == src && types.Identical(t2.AssertedType, ta.AssertedType) {
						return
					}
				}
			}
			nAssert++
			r2.Fail(ta.Pos(), p.FuncName(fn), fmt.Sprintf("single-result assertion .(%s) on a reflect Interface() value", types.TypeString(ta.AssertedType, func(*types.Package) string { return "" })), fmt.Sprintf("the value comes from the caller's variables; a kind test does not fix its type (json.Number, or any named type of that kind, passes a Kind()==String test) and the single-result assertion to %s panics on it — coercion crashes instead of returning an error", ta.AssertedType))
		})
	}
	if nAssert == 0 {
		r2.OK("no single-result type assertion on a reflect Interface() value in the coercer", "type tests on caller values are comma-ok or type switches")
	}
	inputKinds := []string{"ENUM", "INPUT_OBJECT", "SCALAR"}
	allInstrs(vt, func(in ssa.Instruction) {
		pn, ok := in.(*ssa.Panic)
		if !ok {
			return
		}
		// (a) under `lookup == nil`
		for _, cd := range condsAt(in.Block()) {
			if bo, ok := cd.V.(*ssa.BinOp); ok && isNilConst(bo.Y) {
				if l, ok := bo.X.(*ssa.Lookup); ok && loadOfField(l.X, "Schema", "Types") && (bo.Op == token.EQL) == cd.True {
					r2.OK("panic 'missing def' in validateVarType", "reached only when Schema.Types misses the named type of a validated variable / schema-owned field type: excluded by C07.R2 (closure) and the validated-operation precondition")
					return
				}
			}
		}
		// (b) default of the kind switch covering exactly the input kinds
		var neg []string
		for _, cd := range condsAt(in.Block()) {
			if bo, ok := cd.V.(*ssa.BinOp); ok && bo.Op == token.EQL && !cd.True && loadOfField(bo.X, "Definition", "Kind") {
				if s, ok := constString(bo.Y); ok {
					neg = append(neg, s)
				}
			}
		}
		var isIn []string
		if f := p.Func("ast.(*Definition).IsInputType"); f != nil {
			isIn = kindDisjunction(f)
		}
		if sameSet(neg, inputKinds) && sameSet(isIn, inputKinds) {
			r2.OK("panic 'unsupported type' in validateVarType", "default of a switch over exactly the input kinds; VariableValues rejects non-input variable types first and C07.R5 keeps non-input types out of input positions")
		} else {
			r2.Fail(pn.Pos(), p.FuncName(vt), "panic not classified", fmt.Sprintf("a panic in the coercer is neither the missing-definition case nor the default of a switch over the input kinds (switch excludes %v, IsInputType accepts %v)", neg, isIn))
		}
	})
	// VariableValues rejects non-input types before coercing
	{
		okIn := false
		if f := p.Func("ast.(*Definition).IsInputType"); f != nil {
			for _, ci := range callsTo([]*ssa.Function{vv}, f) {
				if !canSkip(ci, nil) {
					okIn = true
				}
			}
		}
		if okIn {
			r2.OK("VariableValues tests IsInputType of every variable's definition before coercing", "")
		} else {
			r2.Fail(vv.Pos(), p.FuncName(vv), "no input-type test before coercion", "a variable of a non-input type would reach the coercer's 'unsupported type' panic")
		}
	}

	// ---- R3 null only for nullable
	r3 := c.Rule("R3", "null is accepted only for nullable types", 3)
	for _, ret := range returnsOf(vt) {
		rvals := returnValues(ret)
		if !isNilConst(rvals[1]) {
			continue
		}
		st := na.stateAt(ret)
		if st == nil {
			continue
		}
		key := reflKey(rvals[0])
		bad := false
		for _, d := range st {
			if rs.valid(d, key) == 1 {
				continue
			}
			// possibly invalid: the type must be known nullable
			if d["nn:p:"+vt.Params[1].Name()] != 0 {
				bad = true
			} else if _, ok := d["nn:p:"+vt.Params[1].Name()]; !ok {
				bad = true
			}
		}
		if bad {
			r3.Fail(ret.Pos(), p.FuncName(vt), "success return of a possibly null value without a NonNull test", "the coercer returns success for a value that may be null (an invalid reflect.Value) on a path where the type's NonNull flag has not been tested false: null slips into a non-null position (for example a null element of [[Int]!] or a null list for [Int]!)")
		} else {
			r3.OK("success return at "+p.Pos(ret.Pos()), "value valid, or NonNull known false")
		}
	}
	// nil stored in the result map
	var resMap ssa.Value
	for _, ret := range returnsOf(vv) {
		if mm, ok := ret.Results[0].(*ssa.MakeMap); ok {
			resMap = mm
		}
	}
	if resMap == nil {
		r3.AnchorLost("the result map of VariableValues")
	}

	// ---- R4 every stored value is nil (guarded) or the coercer's result
	r4 := c.Rule("R4", "every value stored in the result comes out of the coercer", 2)
	if resMap != nil {
		nullableAt := func(in ssa.Instruction) bool {
			st := na.stateAt(in)
			okN := true
			for _, d := range st {
				found := false
				for k, v := range d {
					if strings.HasPrefix(k, "nn:") && v == 0 {
						found = true
					}
				}
				if !found {
					okN = false
				}
			}
			return okN
		}
		// judge: the value comes out of the coercer — nil under NonNull == false, validateVarType(...).Interface(), or the
		// first result of a helper all of whose success returns are one of these
		var judge func(val ssa.Value, in ssa.Instruction, wfn *ssa.Function, depth int) bool
		judge = func(val ssa.Value, in ssa.Instruction, wfn *ssa.Function, depth int) bool {
			if isNilConst(val) {
				if nullableAt(in) {
					r3.OK("nil stored for a variable at "+p.Pos(in.Pos()), "under NonNull == false")
					return true
				}
				r3.Fail(in.Pos(), p.FuncName(wfn), "nil stored without a NonNull test", "a null variable value is accepted although the variable's type may be non-null")
				return true // reported under R3
			}
			if call, ok := stripConv(val).(*ssa.Call); ok {
				if name, recv, _, ok := reflMethod(call); ok && name == "Interface" {
					if ex, ok := recv.(*ssa.Extract); ok {
						if cc, ok := ex.Tuple.(*ssa.Call); ok && cc.Call.StaticCallee() == vt {
							return true
						}
					}
				}
			}
			if ex, ok := stripConv(val).(*ssa.Extract); ok && ex.Index == 0 && depth < 2 {
				if cc, ok := ex.Tuple.(*ssa.Call); ok {
					h := cc.Call.StaticCallee()
					if h != nil && h.Pkg == vt.Pkg && len(h.Blocks) > 0 && h.Signature.Results().Len() >= 2 {
						all, n := true, 0
						for _, ret := range returnsOf(h) {
							vals := returnValues(ret)
							if len(vals) < 2 || !isNilConst(stripConv(vals[len(vals)-1])) {
								continue // error return: VariableValues does not store
							}
							n++
							if !judge(vals[0], ret, h, depth+1) {
								all = false
							}
						}
						return all && n > 0
					}
				}
			}
			return false
		}
		for _, w := range c14ResultWrites(p, vv, resMap) {
			in, wfn := ssa.Instruction(w.mu), w.fn
			if judge(w.mu.Value, in, wfn, 0) {
				r4.OK("result[var] at "+p.Pos(in.Pos()), "nil for a nullable variable, or validateVarType(...).Interface() (directly or through a helper's success returns)")
			} else {
				r4.Fail(in.Pos(), p.FuncName(wfn), "value stored in the result without passing the coercer", "a variable value (for example an evaluated default) is returned to the caller without being checked and coerced against the declared type: the result may not conform (single value for a list type, wrong enum value, missing required input field)")
			}
		}
	}

	// ---- R5 loops cannot be skipped
	r5 := c.Rule("R5", "list elements, unknown fields and declared fields are all examined", 3)
	{
		loopOf := func(in ssa.Instruction) *ssa.BasicBlock {
			headers, bodies := loopsOf(in.Parent())
			var best *ssa.BasicBlock
			for _, h := range headers {
				if bodies[h][in.Block()] && (best == nil || len(bodies[h]) < len(bodies[best])) {
					best = h
				}
			}
			return best
		}
		type need struct {
			what string
			hdr  *ssa.BasicBlock
			from *ssa.BasicBlock
		}
		var needs []need
		// element loop: contains the recursive call with typ.Elem
		for _, ci := range callsTo(coercer, vt) {
			a := ci.Common().Args[1]
			h := loopOf(ci)
			switch {
			case loadOfField(a, "Type", "Elem"):
				needs = append(needs, need{"the element loop of the list case", h, nil})
			case loadOfField(a, "FieldDefinition", "Type"):
				needs = append(needs, need{"the per-field loop of the input-object case", h, nil})
			}
		}
		// unknown-field loop: contains def.Fields.ForName under MapKeys
		for _, cf := range coercer {
			allInstrs(cf, func(in ssa.Instruction) {
				if call, ok := in.(*ssa.Call); ok {
					if g := call.Call.StaticCallee(); g != nil && g.Name() == "ForName" && loadOfField(call.Call.Args[0], "Definition", "Fields") {
						needs = append(needs, need{"the unknown-field loop of the input-object case", loopOf(in), nil})
					}
				}
			})
		}
		if len(needs) < 3 {
			r5.Fail(vt.Pos(), p.FuncName(vt), "loops not found", "the element loop, the unknown-field loop or the per-field loop (with its recursive call) is missing")
		}
		for _, nd := range needs {
			if nd.hdr == nil {
				r5.Fail(vt.Pos(), p.FuncName(vt), nd.what+" is not a loop", "only one child is examined")
				continue
			}
			// the case entry: the block from which the loop is reached after the kind / Elem test: use the immediate dominator chain —
			// success returns dominated by the case's entry block must not be reachable from it while avoiding the loop header.
			entry := caseEntryOf(nd.hdr)
			rr := reachAvoiding(entry, func(b *ssa.BasicBlock) bool { return b == nd.hdr }, nil)
			skipped := false
			for b := range rr {
				if ret, ok := b.Instrs[len(b.Instrs)-1].(*ssa.Return); ok && isNilConst(returnValues(ret)[1]) {
					// returns of a possibly-null value are R3's business (they precede the case)
					if b == entry {
						continue
					}
					skipped = true
				}
			}
			// a loop that sits in a helper: the call that leads to the helper must not be bypassable in its caller once the
			// case is entered, and the caller must hand the helper's result back
			if hf := nd.hdr.Parent(); hf != vt && !skipped {
				for _, ci := range callsTo(coercer, hf) {
					centry := caseEntryOf(ci.Block())
					rr2 := reachAvoiding(centry, func(b *ssa.BasicBlock) bool { return b == ci.Block() }, nil)
					for b := range rr2 {
						if ret, ok := b.Instrs[len(b.Instrs)-1].(*ssa.Return); ok && isNilConst(returnValues(ret)[len(returnValues(ret))-1]) && b != centry {
							skipped = true
						}
					}
				}
			}
			if skipped {
				r5.Fail(nd.hdr.Instrs[0].Pos(), p.FuncName(vt), "success return can skip "+nd.what, "the coercer can report success for a list / input object without examining its children: nested values are returned unchecked")
			} else {
				r5.OK("no success return skips "+nd.what, "")
			}
		}
	}

	// ---- R7 a declared field is left uncoerced only when absent or nullable
	r7 := c.Rule("R7", "a declared input field is skipped only when it is absent or its type is nullable", 2)
	{
		for _, ci := range callsTo(coercer, vt) {
			headers, bodies := loopsOf(ci.Parent())
			a := ci.Common().Args[1]
			if !loadOfField(a, "FieldDefinition", "Type") {
				continue
			}
			var hdr *ssa.BasicBlock
			for _, h := range headers {
				if bodies[h][ci.Block()] && (hdr == nil || len(bodies[h]) < len(bodies[hdr])) {
					hdr = h
				}
			}
			if hdr == nil {
				continue
			}
			body := bodies[hdr]
			// the field's value as supplied: the MapIndex call(s) in the loop
			var supplied []*ssa.Call
			for b := range body {
				for _, in := range b.Instrs {
					if name, _, call, ok := reflMethod(in); ok && name == "MapIndex" && call.Referrers() != nil && len(*call.Referrers()) > 0 {
						supplied = append(supplied, call)
					}
				}
			}
			if len(supplied) != 1 {
				r7.Undecided(hdr.Instrs[0].Pos(), p.FuncName(vt), "per-field loop: supplied value", fmt.Sprintf("the per-field loop reads the supplied field value through %d MapIndex calls; expected one", len(supplied)))
				continue
			}
			sup := reflKey(supplied[0])
			nnKey := "nn:" + accessPath(a)
			// skip edges: back edges whose source is not dominated by the coercion call
			for _, pr := range hdr.Preds {
				if !body[pr] || ci.Block().Dominates(pr) {
					continue
				}
				term := pr.Instrs[len(pr.Instrs)-1]
				st := na.stateAt(term)
				bad := false
				if os.Getenv("GQLVET_R7DBG") != "" {
					fmt.Fprintf(os.Stderr, "R7DBG %s sup=%s nn=%s states=%v\n", p.Pos(lastPos(pr)), sup, nnKey, st)
				}
				for _, d := range st {
					if v, ok := d["rv:"+sup]; ok && v == 0 {
						continue // absent
					}
					if v, ok := d[nnKey]; ok && v == 0 {
						continue // nullable
					}
					bad = true
				}
				site := "skip of a declared field at " + p.Pos(lastPos(pr))
				if bad {
					r7.Fail(lastPos(pr), p.FuncName(vt), "a supplied field may be skipped although its type may be non-null", "the per-field loop moves on to the next field without coercing this one on a path where the field may be present in the input (its MapIndex result valid — an explicit null included) and its declared type has not been tested nullable: a null stays in a non-null position of the returned value")
				} else {
					r7.OK(site, "field absent, or declared type nullable")
				}
			}
		}
	}

	// ---- R6 recursion passes the child's type
	r6 := c.Rule("R6", "recursion passes the child's own declared type", 2)
	for _, ci := range callsTo(coercer, vt) {
		a := ci.Common().Args[1]
		typParam := ""
		for _, prm := range ci.Parent().Params {
			if typeIs(prm.Type(), "/ast", "Type") {
				typParam = "p:" + prm.Name()
			}
		}
		switch {
		case loadOfField(a, "Type", "Elem") && typeBasePath(a) == typParam:
			r6.OK("list element coerced against typ.Elem", "")
		case loadOfField(a, "FieldDefinition", "Type"):
			r6.OK("input field coerced against fieldDef.Type", "")
		default:
			r6.Fail(ci.Pos(), p.FuncName(vt), "recursive coercion against "+describeKey(a), "a child value is coerced against a type that is not the element type / the field's declared type")
		}
	}

	// ---- R8 coercion leaves the operation and the schema as it found them
	r8 := c.Rule("R8", "variable coercion writes no field of a document or schema node", 5)
	{
		e := newEffects(p)
		cs := map[*ssa.Function]bool{}
		for fn := range p.reachableFrom([]*ssa.Function{vv}, e.dyn) {
			if p.inModule(fn) {
				cs[fn] = true
			}
		}
		treeWrites(c, e, cs, r8, "variable coercion")
		// ---- R9 index safety of everything the coercer runs
		r9 := c.Rule("R9", "index and slice expressions reachable from VariableValues are in bounds", 10)
		c02IndexSafety(c, r9, cs)
	}
	// ---- R10 every variable that has a value is written to the result
	r10 := c.Rule("R10", "a supplied or defaulted variable is written to the result on every path", 1)
	c14EveryValuedVariableWritten(c, r10, vv)
}

func displayKey(v ssa.Value) string {
	k := reflKey(v)
	k = strings.TrimPrefix(k, "p:")
	if strings.HasPrefix(k, "v:") {
		if c, ok := stripChange(v).(*ssa.Call); ok {
			if name, recv, _, ok := reflMethod(c); ok {
				return displayKey(recv) + "." + name + "()"
			}
		}
		if ph, ok := v.(*ssa.Phi); ok && ph.Comment != "" {
			return ph.Comment
		}
	}
	return k
}

// caseEntryOf: walk up the dominator tree from the loop header to the nearest block that is the target of a
// kind / Elem test (a block whose immediate dominator ends in an If and which is not in the loop).
func caseEntryOf(hdr *ssa.BasicBlock) *ssa.BasicBlock {
	b := hdr
	for d := b.Idom(); d != nil; d = d.Idom() {
		if ifi, ok := d.Instrs[len(d.Instrs)-1].(*ssa.If); ok {
			cd := normCond(Cond{V: ifi.Cond, True: true})
			if bo, ok := cd.V.(*ssa.BinOp); ok {
				if loadOfField(bo.X, "Definition", "Kind") || (loadOfField(bo.X, "Type", "Elem") && isNilConst(bo.Y)) {
					// the successor of d that dominates hdr
					for _, s := range d.Succs {
						if s.Dominates(hdr) {
							return s
						}
					}
				}
			}
		}
		b = d
	}
	return hdr.Parent().Blocks[0]
}

func lastPos(b *ssa.BasicBlock) token.Pos {
	for i := len(b.Instrs) - 1; i >= 0; i-- {
		if b.Instrs[i].Pos().IsValid() {
			return b.Instrs[i].Pos()
		}
	}
	return loopPos(b)
}

// c14EveryValuedVariableWritten (C14.R10 / C15.R8): in VariableValues' loop over the variable definitions, every
// iteration that ends normally with "the variable has a value" true — it was found among the supplied variables (an
// explicit null included) or took its default — has written result[name]. Decided by enumerating the paths of one
// iteration (each inner back edge followed once), tracking the found flag of the lookup and the boolean phis fed by it
// along each path, and pruning branches on them that contradict the tracked value.
type c14Path struct {
	b, prev *ssa.BasicBlock
	vals    map[ssa.Value]bool
	wrote   bool
}

func c14EveryValuedVariableWritten(c *Ctx, r *RuleResult, vv *ssa.Function) {
	p := c.P
	var found ssa.Value
	var foundPos token.Pos
	allInstrs(vv, func(in ssa.Instruction) {
		lk, ok := in.(*ssa.Lookup)
		if !ok || !lk.CommaOk {
			return
		}
		if prm, isP := lk.X.(*ssa.Parameter); !isP || prm != vv.Params[len(vv.Params)-1] {
			return
		}
		for _, ref := range *lk.Referrers() {
			if ex, ok := ref.(*ssa.Extract); ok && ex.Index == 1 {
				found, foundPos = ex, lk.Pos()
			}
		}
	})
	if found == nil {
		r.AnchorLost("the comma-ok lookup of the supplied variables in VariableValues")
		return
	}
	var resMap ssa.Value
	for _, ret := range returnsOf(vv) {
		if mm, ok := ret.Results[0].(*ssa.MakeMap); ok {
			resMap = mm
		}
	}
	if resMap == nil {
		r.AnchorLost("the result map of VariableValues")
		return
	}
	headers, bodies := loopsOf(vv)
	var hdr *ssa.BasicBlock
	fb := found.(ssa.Instruction).Block()
	for _, h := range headers {
		if bodies[h][fb] && (hdr == nil || len(bodies[h]) > len(bodies[hdr])) {
			hdr = h
		}
	}
	if hdr == nil {
		r.AnchorLost("the loop over the variable definitions")
		return
	}
	body := bodies[hdr]
	var isFlag func(v ssa.Value) bool
	flagMemo := map[ssa.Value]bool{}
	isFlag = func(v ssa.Value) bool {
		if v == found {
			return true
		}
		if f, ok := flagMemo[v]; ok {
			return f
		}
		flagMemo[v] = false
		ph, ok := v.(*ssa.Phi)
		if !ok || !isBoolType(ph.Type()) {
			return false
		}
		for _, e := range ph.Edges {
			if isFlag(e) {
				flagMemo[v] = true
				return true
			}
		}
		return false
	}
	bad, paths := 0, 0
	onBack := map[[2]*ssa.BasicBlock]bool{}
	var walk func(s c14Path)
	step := func(from, to *ssa.BasicBlock, vals map[ssa.Value]bool, wrote bool) {
		if paths > 50000 {
			return
		}
		if to == hdr {
			paths++
			// the variable has a value when any tracked flag is true: found itself, or a phi that took the constant true
			has := false
			for _, v := range vals {
				has = has || v
			}
			if has && !wrote {
				bad++
			}
			return
		}
		if !body[to] {
			return
		}
		if to.Dominates(from) {
			k := [2]*ssa.BasicBlock{from, to}
			if onBack[k] {
				return
			}
			onBack[k] = true
			defer delete(onBack, k)
		}
		walk(c14Path{to, from, vals, wrote})
	}
	walk = func(s c14Path) {
		b := s.b
		vals := map[ssa.Value]bool{}
		for k, v := range s.vals {
			vals[k] = v
		}
		wrote := s.wrote
		for _, in := range b.Instrs {
			switch x := in.(type) {
			case *ssa.Phi:
				if !isFlag(x) {
					continue
				}
				for i, pd := range b.Preds {
					if pd != s.prev {
						continue
					}
					e := x.Edges[i]
					if cst, ok := e.(*ssa.Const); ok && cst.Value != nil {
						vals[x] = cst.Value.String() == "true"
					} else if v, ok := vals[e]; ok {
						vals[x] = v
					} else {
						delete(vals, x)
					}
					break
				}
			case *ssa.MapUpdate:
				if x.Map == resMap {
					wrote = true
				}
			case ssa.CallInstruction:
				// the map handed to a helper that stores into it on every successful return (the error return of the
				// helper is an error return of the iteration)
				if h := x.Common().StaticCallee(); h != nil {
					for j, a := range x.Common().Args {
						if a == resMap && c14WritesOnSuccess(h, j) {
							wrote = true
						}
					}
				}
			}
		}
		switch t := b.Instrs[len(b.Instrs)-1].(type) {
		case *ssa.Return, *ssa.Panic:
			return // an error return: not an iteration that ends normally
		case *ssa.If:
			cond, neg := ssa.Value(t.Cond), false
			for {
				u, ok := cond.(*ssa.UnOp)
				if !ok || u.Op != token.NOT {
					break
				}
				cond, neg = u.X, !neg
			}
			for i, sc := range b.Succs {
				if !isFlag(cond) {
					step(b, sc, vals, wrote)
					continue
				}
				want := (i == 0) != neg
				if v, ok := vals[cond]; ok && v != want {
					continue
				}
				nv := map[ssa.Value]bool{}
				for k, v := range vals {
					nv[k] = v
				}
				nv[cond] = want
				step(b, sc, nv, wrote)
			}
		default:
			for _, sc := range b.Succs {
				step(b, sc, vals, wrote)
			}
		}
	}
	for _, sc := range hdr.Succs {
		if body[sc] && sc != hdr {
			walk(c14Path{sc, hdr, map[ssa.Value]bool{}, false})
		}
	}
	if paths == 0 {
		r.Undecided(vv.Pos(), p.FuncName(vv), "iteration paths", "no path of the per-variable loop was enumerated")
		return
	}
	if bad > 0 {
		r.Fail(foundPos, p.FuncName(vv), "a variable that has a value is left out of the result", fmt.Sprintf("%d of the %d paths through one iteration end with the variable found among the supplied values (or defaulted) and nothing written to the result: an explicit null, for one, then looks like an absent variable, and argument and variable defaults override it later", bad, paths))
	} else {
		r.OK(fmt.Sprintf("VariableValues: %d paths through one iteration", paths), "every one that ends with 'has a value' true has written result[name]")
	}
}

// predicatePaths: g is a loop-free function without effects that returns a bool computed from tests of its
// reflect.Value parameters; for each outcome, the condition sequences of the paths that produce it. nil if g is not
// of that form.
func (rs *reflState) predicatePaths(g *ssa.Function) map[bool][][]Cond {
	if rs.predMemo == nil {
		rs.predMemo = map[*ssa.Function]map[bool][][]Cond{}
	}
	if v, ok := rs.predMemo[g]; ok {
		return v
	}
	rs.predMemo[g] = nil
	if hasAnyLoop(g) {
		return nil
	}
	pure := true
	allInstrs(g, func(in ssa.Instruction) {
		switch x := in.(type) {
		case *ssa.BinOp, *ssa.UnOp, *ssa.Phi, *ssa.If, *ssa.Jump, *ssa.Return, *ssa.DebugRef, *ssa.ChangeType, *ssa.Convert:
		case *ssa.Call:
			if _, _, _, ok := reflMethod(x); !ok {
				// reflect.Type.Kind() on v.Type()
				if !(x.Call.IsInvoke() && x.Call.Method.Name() == "Kind") {
					pure = false
				}
			}
		default:
			pure = false
		}
	})
	if !pure {
		return nil
	}
	out := map[bool][][]Cond{}
	n := 0
	var walk func(b, prev *ssa.BasicBlock, seq []Cond, phis map[*ssa.Phi]ssa.Value)
	walk = func(b, prev *ssa.BasicBlock, seq []Cond, phis map[*ssa.Phi]ssa.Value) {
		if n > 64 {
			return
		}
		np := map[*ssa.Phi]ssa.Value{}
		for k, v := range phis {
			np[k] = v
		}
		for _, in := range b.Instrs {
			if ph, ok := in.(*ssa.Phi); ok && prev != nil {
				for i, pd := range b.Preds {
					if pd == prev {
						np[ph] = ph.Edges[i]
					}
				}
			}
		}
		resolve := func(v ssa.Value) ssa.Value {
			for i := 0; i < 8; i++ {
				ph, ok := v.(*ssa.Phi)
				if !ok {
					return v
				}
				e, ok := np[ph]
				if !ok {
					return v
				}
				v = e
			}
			return v
		}
		switch t := b.Instrs[len(b.Instrs)-1].(type) {
		case *ssa.Return:
			n++
			v := resolve(t.Results[0])
			if cst, ok := v.(*ssa.Const); ok && cst.Value != nil {
				o := cst.Value.String() == "true"
				out[o] = append(out[o], append([]Cond{}, seq...))
				return
			}
			out[true] = append(out[true], append(append([]Cond{}, seq...), normCond(Cond{V: v, True: true})))
			out[false] = append(out[false], append(append([]Cond{}, seq...), normCond(Cond{V: v, True: false})))
		case *ssa.If:
			cv := resolve(t.Cond)
			if cst, ok := cv.(*ssa.Const); ok && cst.Value != nil {
				if cst.Value.String() == "true" {
					walk(b.Succs[0], b, seq, np)
				} else {
					walk(b.Succs[1], b, seq, np)
				}
				return
			}
			walk(b.Succs[0], b, append(append([]Cond{}, seq...), normCond(Cond{V: cv, True: true})), np)
			walk(b.Succs[1], b, append(append([]Cond{}, seq...), normCond(Cond{V: cv, True: false})), np)
		default:
			for _, sc := range b.Succs {
				walk(sc, b, seq, np)
			}
		}
	}
	walk(g.Blocks[0], nil, nil, map[*ssa.Phi]ssa.Value{})
	if n > 64 || n == 0 {
		return nil
	}
	rs.predMemo[g] = out
	return out
}

// c14ResultWrites: the stores into VariableValues' result map — in VariableValues itself, or in a function it hands the
// map to as an argument (one level).
type c14Write struct {
	mu *ssa.MapUpdate
	fn *ssa.Function
}

func c14ResultWrites(p *Program, vv *ssa.Function, resMap ssa.Value) []c14Write {
	var out []c14Write
	allInstrs(vv, func(in ssa.Instruction) {
		switch x := in.(type) {
		case *ssa.MapUpdate:
			if x.Map == resMap {
				out = append(out, c14Write{x, vv})
			}
		case ssa.CallInstruction:
			h := x.Common().StaticCallee()
			if h == nil || !p.inModule(h) || len(h.Blocks) == 0 {
				return
			}
			for j, a := range x.Common().Args {
				if a != resMap || j >= len(h.Params) {
					continue
				}
				prm := h.Params[j]
				allInstrs(h, func(in2 ssa.Instruction) {
					if mu, ok := in2.(*ssa.MapUpdate); ok && mu.Map == ssa.Value(prm) {
						out = append(out, c14Write{mu, h})
					}
				})
			}
		}
	})
	return out
}

// c14WritesOnSuccess: h stores into its map parameter j on every path that ends in a return with a nil last result.
func c14WritesOnSuccess(h *ssa.Function, j int) bool {
	if h == nil || len(h.Blocks) == 0 || j >= len(h.Params) {
		return false
	}
	prm := h.Params[j]
	writes := map[*ssa.BasicBlock]bool{}
	allInstrs(h, func(in ssa.Instruction) {
		if mu, ok := in.(*ssa.MapUpdate); ok && mu.Map == ssa.Value(prm) {
			writes[in.Block()] = true
		}
	})
	if len(writes) == 0 {
		return false
	}
	rr := reachAvoiding(h.Blocks[0], func(b *ssa.BasicBlock) bool { return writes[b] }, nil)
	for b := range rr {
		ret, ok := b.Instrs[len(b.Instrs)-1].(*ssa.Return)
		if !ok {
			continue
		}
		vals := returnValues(ret)
		if len(vals) == 0 || isNilConst(stripConv(vals[len(vals)-1])) {
			return false
		}
	}
	return true
}
