package main

import (
	"fmt"
	"go/token"
	"sort"
	"strings"

	"golang.org/x/tools/go/ssa"
)

// C02.R6 — index and slice expressions outside the lexer are in bounds.
//
// The numeric abstract interpreter that proves the lexer's index safety (C01.R1) is run, one function at a time and
// with no assumption about the arguments, over every function of the validation scope (validator, the rules, ast,
// gqlerror, formatter). Lists held in struct fields, captured variables and local cells get one length symbol per
// access path, bound to each value read from the place and forgotten when a store or a call may change the place;
// make, append, range and the library contracts of C01 apply; the `less` function handed to sort.Slice is analysed
// with 0 <= i, j < len(slice). An index or slice expression whose bounds do not follow is reported — a request or
// schema that reaches it with the wrong length panics the validator — except for the sites of the table below, each of
// which rests on an invariant another rule (or the code's push/pop discipline) provides, stated next to it.
var c02IndexAssumed = map[string]string{
	"rules | index Definition.Fields[0]": "an input object type defines at least one field (C07: validateDefinition rejects an empty INPUT_OBJECT); the oneOf check reads the first one",
}

func c02IndexSafety(c *Ctx, r *RuleResult, only map[*ssa.Function]bool) {
	p := c.P
	assumedUsed := map[string]bool{}
	total := 0
	var sd *stackDisc
	for _, rel := range []string{"validator", "validator/rules", "ast", "gqlerror", "formatter", ""} {
		if p.SPkgs[rel] == nil {
			continue
		}
		e := newAbsEngine(p, rel, nil)
		e.maxDepth = 0
		e.apLens = true
		for _, fn := range p.FuncsIn(rel) {
			if only != nil && !only[fn] {
				continue
			}
			if len(fn.Blocks) == 0 || (fn.Parent() == nil && (fn.Name() == "init" || strings.HasPrefix(fn.Name(), "init#")) && fn.Synthetic != "") {
				continue
			}
			f2 := &frame{fn: fn, ctx: "X:" + fn.Name(), rec: true}
			st := newNst()
			sortLessAssumptions(f2, st, fn)
			e.runFunc(f2, st)
		}
		var keys []string
		for k := range e.obl {
			keys = append(keys, k)
		}
		sort.Strings(keys)
		for _, k := range keys {
			o := e.obl[k]
			if !strings.HasPrefix(o.what, "index ") && !strings.HasPrefix(o.what, "slice ") {
				continue
			}
			total++
			site := fmt.Sprintf("%s %s in %s", p.Pos(o.pos), o.what, o.fn)
			if o.ok {
				r.OK(site, o.need)
				continue
			}
			if sl := sliceAt(p, rel, o.fn, o.pos); sl != nil {
				if sd == nil {
					sd = newStackDisc(p)
				}
				if why, ok := sd.provePop(sl); ok {
					r.OK(site, "decided: "+why)
					continue
				}
				if why, ok := sd.recordedDepthSlice(sl); ok {
					k := "slice of a push/pop stack from a recorded depth"
					assumedUsed[k] = true
					c02IndexAssumed[k] = why
					r.OK(site, "assumed: "+why)
					continue
				}
			}
			if key, why := c02AssumedSite(o.fn, o.what); why != "" {
				assumedUsed[key] = true
				r.OK(site, "assumed: "+why)
				continue
			}
			r.Fail(o.pos, o.fn, normIndexWhat(o.what), fmt.Sprintf("cannot prove %s (%s): a document, schema or variable value that reaches this expression with a shorter list or string panics with an index or slice bounds error instead of being rejected", o.need, o.detail))
		}
	}
	var used []string
	for k := range assumedUsed {
		used = append(used, k+" — "+c02IndexAssumed[k])
	}
	sort.Strings(used)
	for _, u := range used {
		c.Assume("index safety, assumed site: " + u)
	}
	c.Extra["c02_index_sites"] = total
}

// normIndexWhat strips SSA temporaries from an obligation's description so that the finding key is stable.
func normIndexWhat(what string) string {
	out := []rune{}
	rs := []rune(what)
	for i := 0; i < len(rs); i++ {
		if rs[i] == 't' && i+1 < len(rs) && rs[i+1] >= '0' && rs[i+1] <= '9' && (i == 0 || !(rs[i-1] >= 'a' && rs[i-1] <= 'z' || rs[i-1] >= 'A' && rs[i-1] <= 'Z' || rs[i-1] == '.')) {
			j := i + 1
			for j < len(rs) && rs[j] >= '0' && rs[j] <= '9' {
				j++
			}
			out = append(out, '_')
			i = j - 1
			continue
		}
		out = append(out, rs[i])
	}
	return string(out)
}

// sliceAt: the slice instruction of function fnName at pos.
func sliceAt(p *Program, rel, fnName string, pos token.Pos) *ssa.Slice {
	var out *ssa.Slice
	for _, fn := range p.FuncsIn(rel) {
		if p.FuncName(fn) != fnName {
			continue
		}
		allInstrs(fn, func(in ssa.Instruction) {
			if sl, ok := in.(*ssa.Slice); ok && sl.Pos() == pos {
				out = sl
			}
		})
	}
	return out
}

func c02AssumedSite(fn, what string) (string, string) {
	w := normIndexWhat(what)
	root := fn
	if i := strings.Index(root, "$"); i >= 0 {
		root = root[:i]
	}
	var cands []string
	switch {
	case strings.HasPrefix(w, "index ") && strings.Contains(w, ".Fields[0]"):
		if strings.HasPrefix(root, "rules.") {
			cands = append(cands, "rules | index Definition.Fields[0]")
		}
	}
	for _, k := range cands {
		if why, ok := c02IndexAssumed[k]; ok {
			return k, why
		}
	}
	return "", ""
}

// sortLessAssumptions: fn is the `less` closure of a sort.Slice / sort.SliceStable call in its parent: its two int
// parameters index the sorted slice, which the closure reaches through a captured variable.
func sortLessAssumptions(fr *frame, st *nst, fn *ssa.Function) {
	par := fn.Parent()
	if par == nil || len(fn.Params) != 2 {
		return
	}
	allInstrs(par, func(in ssa.Instruction) {
		call, ok := in.(*ssa.Call)
		if !ok {
			return
		}
		nm := calleeName(call)
		if nm != "sort.Slice" && nm != "sort.SliceStable" || len(call.Call.Args) != 2 {
			return
		}
		mc, ok := call.Call.Args[1].(*ssa.MakeClosure)
		if !ok || mc.Fn != ssa.Value(fn) {
			return
		}
		// the sorted slice: interface made from a load of the captured variable
		arg := call.Call.Args[0]
		if mi, ok := arg.(*ssa.MakeInterface); ok {
			arg = mi.X
		}
		ld, ok := stripChange(arg).(*ssa.UnOp)
		if !ok {
			return
		}
		for i, b := range mc.Bindings {
			if b == ld.X && i < len(fn.FreeVars) {
				ap := "len:" + fr.ctx + ":ap:fv:" + fn.FreeVars[i].Name()
				st.z.add("", ap, 0)
				for _, prm := range fn.Params {
					v := fr.v(prm.Name())
					st.z.add("", v, 0)  // 0 <= p
					st.z.add(v, ap, -1) // p <= len - 1
				}
			}
		}
	})
}
