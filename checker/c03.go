package main

import (
	"fmt"
	"go/constant"
	"go/token"
	"go/types"
	"sort"
	"strings"

	"golang.org/x/tools/go/ssa"
)

func init() {
	register("C03", "Lexical tables (extracted from the code, compared with the October 2021 lexical grammar): (R1) the punctuator dispatch of ReadToken maps exactly the 14 punctuators to their token kinds (`...` through a three-byte comparison); (R2) the characters that start a name are [_A-Za-z], the characters that continue one are [_0-9A-Za-z], numbers start with [-0-9]; (R3) ws skips exactly tab, space, comma, LF, CR and the BOM (EF BB BF); (R4) the single-character escapes of quoted strings are quote, backslash, slash, b, f, n, r, t with the right code points; (R5) a unicode escape takes exactly four characters and unhex accepts exactly [0-9A-Fa-f] with the right weights, without delegating to a parser that accepts more; (R6) comments, strings and block strings accept exactly SourceCharacter (minus their terminators); (R7) block strings honour exactly the backslash-triple-quote escape, and block-string whitespace is exactly space and tab (no Unicode whitespace functions anywhere in the lexer); (R8) a number is followed by neither a name start nor a dot (look-ahead before the Int/Float token is made). Sets are computed by propagating interval sets of the scrutinised character through the branch conditions — no expression is executed. (R5 also) a character is written as one byte only where its interval set lies below 0x80. (R9) the rune cursor is never advanced by a byte length; a stepping helper's parameter is classified by what its callers pass.", runC03)
}

// ---- interval sets ----

type ivset [][2]int64 // sorted, disjoint, inclusive

func ivFull(max int64) ivset { return ivset{{0, max}} }

func (a ivset) norm() ivset {
	if len(a) == 0 {
		return nil
	}
	b := append(ivset{}, a...)
	sort.Slice(b, func(i, j int) bool { return b[i][0] < b[j][0] })
	out := ivset{b[0]}
	for _, x := range b[1:] {
		l := &out[len(out)-1]
		if x[0] <= l[1]+1 {
			if x[1] > l[1] {
				l[1] = x[1]
			}
		} else {
			out = append(out, x)
		}
	}
	return out
}

func (a ivset) union(b ivset) ivset { return append(append(ivset{}, a...), b...).norm() }

func (a ivset) intersectRange(lo, hi int64) ivset {
	var out ivset
	for _, x := range a {
		l, h := x[0], x[1]
		if l < lo {
			l = lo
		}
		if h > hi {
			h = hi
		}
		if l <= h {
			out = append(out, [2]int64{l, h})
		}
	}
	return out
}

func (a ivset) contains(p int64) bool { return len(a.intersectRange(p, p)) > 0 }

func (a ivset) minusPoint(p int64) ivset {
	return a.intersectRange(-1<<40, p-1).union(a.intersectRange(p+1, 1<<40))
}

func (a ivset) eq(b ivset) bool {
	a, b = a.norm(), b.norm()
	if len(a) != len(b) {
		return false
	}
	for i := range a {
		if a[i] != b[i] {
			return false
		}
	}
	return true
}

func (a ivset) String() string {
	var parts []string
	for _, x := range a.norm() {
		f := func(c int64) string {
			if c >= 0x21 && c <= 0x7e && c != '"' && c != '\\' {
				return fmt.Sprintf("'%c'", rune(c))
			}
			return fmt.Sprintf("U+%04X", c)
		}
		if x[0] == x[1] {
			parts = append(parts, f(x[0]))
		} else {
			parts = append(parts, f(x[0])+"-"+f(x[1]))
		}
	}
	if len(parts) == 0 {
		return "{}"
	}
	return "{" + strings.Join(parts, " ") + "}"
}

func ivOf(ranges ...int64) ivset {
	var s ivset
	for i := 0; i+1 < len(ranges); i += 2 {
		s = append(s, [2]int64{ranges[i], ranges[i+1]})
	}
	return s.norm()
}

func ivPoints(ps ...int64) ivset {
	var s ivset
	for _, p := range ps {
		s = append(s, [2]int64{p, p})
	}
	return s.norm()
}

// sameScrutinee: v is the scrutinised value (possibly converted).
func sameScrutinee(v, scr ssa.Value) bool {
	for i := 0; i < 4; i++ {
		if v == scr {
			return true
		}
		// a second read of the same string at the same index (go/ssa does not merge them; strings are immutable)
		if vi, ok := v.(ssa.Instruction); ok {
			if si, ok := scr.(ssa.Instruction); ok {
				i1, _, ok1 := strIndex(vi)
				i2, _, ok2 := strIndex(si)
				if ok1 && ok2 && i1 == i2 && indexBase(vi) != nil && indexBase(vi) == indexBase(si) {
					return true
				}
			}
		}
		switch x := v.(type) {
		case *ssa.Convert:
			v = x.X
		case *ssa.ChangeType:
			v = x.X
		default:
			return false
		}
	}
	return false
}

func constNum(v ssa.Value) (int64, bool) {
	c, ok := v.(*ssa.Const)
	if !ok || c.Value == nil || c.Value.Kind() != constant.Int {
		return 0, false
	}
	return constant.Int64Val(c.Value)
}

// refineSet splits set by `scr OP k` being true.
func refineSet(set ivset, op token.Token, k int64, truth bool) ivset {
	if !truth {
		switch op {
		case token.EQL:
			op = token.NEQ
		case token.NEQ:
			op = token.EQL
		case token.LSS:
			op = token.GEQ
		case token.LEQ:
			op = token.GTR
		case token.GTR:
			op = token.LEQ
		case token.GEQ:
			op = token.LSS
		}
	}
	switch op {
	case token.EQL:
		return set.intersectRange(k, k)
	case token.NEQ:
		return set.minusPoint(k)
	case token.LSS:
		return set.intersectRange(-1<<40, k-1)
	case token.LEQ:
		return set.intersectRange(-1<<40, k)
	case token.GTR:
		return set.intersectRange(k+1, 1<<40)
	case token.GEQ:
		return set.intersectRange(k, 1<<40)
	}
	return set
}

// reachSets: for which values of scr is each block reached, starting from `start` with `init`.
// Conditions that are phis of such comparisons (a || b chains materialised as values) are followed per edge.
func reachSets(fn *ssa.Function, scr ssa.Value, start *ssa.BasicBlock, init ivset) map[*ssa.BasicBlock]ivset {
	sets, _ := reachSetsEdges(fn, scr, start, init)
	return sets
}

// reachSetsEdges also returns, per block and predecessor, the values for which that edge is taken.
func reachSetsEdges(fn *ssa.Function, scr ssa.Value, start *ssa.BasicBlock, init ivset) (map[*ssa.BasicBlock]ivset, map[*ssa.BasicBlock]map[*ssa.BasicBlock]ivset) {
	sets := map[*ssa.BasicBlock]ivset{start: init}
	// per (block, pred) sets to resolve condition phis
	from := map[*ssa.BasicBlock]map[*ssa.BasicBlock]ivset{}
	work := []*ssa.BasicBlock{start}
	visits := map[*ssa.BasicBlock]int{}
	condSplit := func(cond ssa.Value, set ivset) (t, f ivset, ok bool) {
		// membership of the scrutinised character in a read-only table: `v, ok := table[c]` branches on ok;
		// `table[c] != zero` (an array of kinds) is handled below
		if curProgram != nil {
			if tab, idx, isOK, _ := tableLookup(curProgram, cond); tab != nil && isOK && sameScrutinee(stripChange(idx), scr) {
				keys := tab.keysWhere(func(tableEntry) bool { return true })
				in := ivPoints(keys...)
				var tt ivset
				for _, k := range in {
					tt = tt.union(set.intersectRange(k[0], k[1]))
				}
				ff := set
				for _, k := range keys {
					ff = ff.minusPoint(k)
				}
				return tt.norm(), ff.norm(), true
			}
		}
		bo, isB := cond.(*ssa.BinOp)
		if !isB {
			return nil, nil, false
		}
		if curProgram != nil && (bo.Op == token.EQL || bo.Op == token.NEQ) {
			// table[c] ==/!= constant
			for _, pair := range [][2]ssa.Value{{bo.X, bo.Y}, {bo.Y, bo.X}} {
				tab, idx, isOK, field := tableLookup(curProgram, pair[0])
				kc, isC := pair[1].(*ssa.Const)
				if tab == nil || isOK || field != "" || !isC || kc.Value == nil || !sameScrutinee(stripChange(idx), scr) {
					continue
				}
				if _, isArr := tab.g.Type().(*types.Pointer).Elem().Underlying().(*types.Array); !isArr {
					continue
				}
				eqKeys := tab.keysWhere(func(e tableEntry) bool {
					c2, ok := e.val.(*ssa.Const)
					return ok && c2.Value != nil && constant.Compare(c2.Value, token.EQL, kc.Value)
				})
				// array entries that were never stored hold the zero value
				zero := constant.Compare(kc.Value, token.EQL, constant.MakeInt64(0))
				stored := map[int64]bool{}
				for _, k := range tab.keysWhere(func(tableEntry) bool { return true }) {
					stored[k] = true
				}
				var eq ivset
				for _, k := range eqKeys {
					eq = eq.union(set.intersectRange(k, k))
				}
				if zero {
					rest := set
					for k := range stored {
						rest = rest.minusPoint(k)
					}
					eq = eq.union(rest)
				}
				ne := set
				for _, iv := range eq.norm() {
					for x := iv[0]; x <= iv[1]; x++ {
						ne = ne.minusPoint(x)
					}
				}
				if bo.Op == token.EQL {
					return eq.norm(), ne.norm(), true
				}
				return ne.norm(), eq.norm(), true
			}
		}
		op := bo.Op
		var k int64
		switch {
		case sameScrutinee(bo.X, scr):
			kk, okK := constNum(bo.Y)
			if !okK {
				return nil, nil, false
			}
			k = kk
		case sameScrutinee(bo.Y, scr):
			kk, okK := constNum(bo.X)
			if !okK {
				return nil, nil, false
			}
			k = kk
			switch op {
			case token.LSS:
				op = token.GTR
			case token.LEQ:
				op = token.GEQ
			case token.GTR:
				op = token.LSS
			case token.GEQ:
				op = token.LEQ
			}
		default:
			return nil, nil, false
		}
		return refineSet(set, op, k, true), refineSet(set, op, k, false), true
	}
	for len(work) > 0 {
		b := work[0]
		work = work[1:]
		visits[b]++
		if visits[b] > 30 {
			continue
		}
		set := sets[b]
		push := func(s *ssa.BasicBlock, x ivset) {
			if from[s] == nil {
				from[s] = map[*ssa.BasicBlock]ivset{}
			}
			old := from[s][b]
			nw := old.union(x)
			from[s][b] = nw
			all := sets[s].union(x)
			if !all.eq(sets[s]) || !nw.eq(old) {
				sets[s] = all
				work = append(work, s)
			}
		}
		ifi, ok := b.Instrs[len(b.Instrs)-1].(*ssa.If)
		if !ok || len(b.Succs) != 2 {
			for _, s := range b.Succs {
				push(s, set)
			}
			continue
		}
		cond := ifi.Cond
		neg := false
		for {
			u, isU := cond.(*ssa.UnOp)
			if !isU || u.Op != token.NOT {
				break
			}
			cond = u.X
			neg = !neg
		}
		if t, f, ok := condSplit(cond, set); ok {
			if neg {
				t, f = f, t
			}
			if len(t) > 0 {
				push(b.Succs[0], t)
			}
			if len(f) > 0 {
				push(b.Succs[1], f)
			}
			continue
		}
		// a phi of conditions defined in this block: resolve per predecessor
		if ph, isPhi := cond.(*ssa.Phi); isPhi && ph.Block() == b {
			var tt, ff ivset
			for i, pd := range b.Preds {
				ps := from[b][pd]
				if len(ps) == 0 {
					continue
				}
				ev := ph.Edges[i]
				if cst, isC := ev.(*ssa.Const); isC && cst.Value != nil {
					if cst.Value.String() == "true" {
						tt = tt.union(ps)
					} else {
						ff = ff.union(ps)
					}
					continue
				}
				if t, f, ok := condSplit(ev, ps); ok {
					tt = tt.union(t)
					ff = ff.union(f)
				} else {
					tt = tt.union(ps)
					ff = ff.union(ps)
				}
			}
			if neg {
				tt, ff = ff, tt
			}
			if len(tt) > 0 {
				push(b.Succs[0], tt)
			}
			if len(ff) > 0 {
				push(b.Succs[1], ff)
			}
			continue
		}
		for _, s := range b.Succs {
			push(s, set)
		}
	}
	return sets, from
}

func runC03(c *Ctx) {
	p := c.P
	lexT := p.LookupType("lexer", "Lexer")
	rt := p.Func("lexer.(*Lexer).ReadToken")
	r1 := c.Rule("R1", "punctuator dispatch", 14)
	if lexT == nil || rt == nil {
		r1.AnchorLost("lexer.Lexer / ReadToken")
		return
	}
	kindName := map[int64]string{}
	kindVal := map[string]int64{}
	for _, nm := range p.Pkgs["lexer"].Types.Scope().Names() {
		if cst, ok := p.Pkgs["lexer"].Types.Scope().Lookup(nm).(*types.Const); ok {
			if n := namedOf(cst.Type()); n != nil && n.Obj().Name() == "Type" {
				k, _ := constantInt(cst)
				kindName[k] = nm
				kindVal[nm] = k
			}
		}
	}
	makeVal := p.Func("lexer.(*Lexer).makeValueToken")
	makeTok := p.Func("lexer.(*Lexer).makeToken")
	// the scrutinee of ReadToken: the byte loaded from Input[start]
	var scr ssa.Value
	allInstrs(rt, func(in ssa.Instruction) {
		if scr != nil {
			return
		}
		if _, v, ok := strIndex(in); ok && isByteVal(v) {
			scr = v
		}
	})
	if scr == nil {
		r1.AnchorLost("the byte ReadToken dispatches on")
		return
	}
	sets := reachSets(rt, scr, scr.(ssa.Instruction).Block(), ivFull(255))
	// blocks that make a token of a constant kind / call a reader
	type disp struct {
		set  ivset
		what string
	}
	got := map[string]ivset{}
	for b, set := range sets {
		for _, in := range b.Instrs {
			call, ok := in.(*ssa.Call)
			if !ok {
				continue
			}
			g := call.Call.StaticCallee()
			if g == nil {
				continue
			}
			switch {
			case g == makeVal:
				if k, ok := constInt(call.Call.Args[1]); ok {
					got["kind:"+kindName[k]] = got["kind:"+kindName[k]].union(set)
				} else if tab, idx, isOK, field := tableLookup(p, call.Call.Args[1]); tab != nil && !isOK && field == "" && sameScrutinee(stripChange(idx), scr) {
					// the kind is read from a table indexed by the first byte: entry i gives its kind for byte i
					for _, e := range tab.entries {
						kc, isC := e.val.(*ssa.Const)
						ki, okK := constant.Int64Val(e.key)
						if !isC || !okK || kc.Value == nil {
							continue
						}
						if kv, okV := constant.Int64Val(kc.Value); okV {
							got["kind:"+kindName[kv]] = got["kind:"+kindName[kv]].union(set.intersectRange(ki, ki))
						}
					}
				}
			case strings.HasPrefix(g.Name(), "read") && g.Signature.Recv() != nil:
				got["call:"+g.Name()] = got["call:"+g.Name()].union(set)
			}
		}
	}
	wantP := map[string]int64{"Bang": '!', "Dollar": '$', "Amp": '&', "ParenL": '(', "ParenR": ')', "Spread": '.', "Colon": ':', "Equals": '=', "At": '@', "BracketL": '[', "BracketR": ']', "BraceL": '{', "BraceR": '}', "Pipe": '|'}
	var names []string
	for n := range wantP {
		names = append(names, n)
	}
	sort.Strings(names)
	for _, n := range names {
		want := ivPoints(wantP[n])
		g := got["kind:"+n]
		if g.eq(want) {
			r1.OK(fmt.Sprintf("%s is produced exactly for %s", n, want), "")
		} else {
			r1.Fail(rt.Pos(), p.FuncName(rt), "punctuator "+n+" dispatched for "+g.String(), fmt.Sprintf("token kind %s is produced for first byte %s; the grammar's punctuator is %s", n, g, want))
		}
	}
	for k, g := range got {
		if strings.HasPrefix(k, "kind:") {
			n := strings.TrimPrefix(k, "kind:")
			if _, ok := wantP[n]; !ok && n != "EOF" {
				r1.Fail(rt.Pos(), p.FuncName(rt), "unexpected token kind "+n+" made in the dispatch for "+g.String(), "a token kind outside the punctuator table is produced directly by the dispatch")
			}
		}
	}
	// `...` is matched by a three-byte comparison
	okSpread := false
	allInstrs(rt, func(in ssa.Instruction) {
		if comparesWithConst(in, "...") {
			okSpread = true
		}
	})
	if okSpread {
		r1.OK("Spread requires the three bytes `...`", "")
	} else {
		r1.Fail(rt.Pos(), p.FuncName(rt), "spread comparison", "the spread punctuator is no longer matched against `...`")
	}

	// ---- R2
	r2 := c.Rule("R2", "name and number character classes", 4)
	nameStart := ivOf('A', 'Z', '_', '_', 'a', 'z')
	nameCont := ivOf('0', '9', 'A', 'Z', '_', '_', 'a', 'z')
	numStart := ivOf('-', '-', '0', '9')
	chk := func(r *RuleResult, what string, g, want ivset, fn *ssa.Function) {
		if g.eq(want) {
			r.OK(what+" = "+want.String(), "")
		} else {
			r.Fail(fn.Pos(), p.FuncName(fn), what+" is "+g.String(), fmt.Sprintf("%s is %s in the code; the grammar says %s", what, g, want))
		}
	}
	chk(r2, "NameStart (dispatch to readName)", got["call:readName"], nameStart, rt)
	chk(r2, "number start (dispatch to readNumber)", got["call:readNumber"], numStart, rt)
	strStart := got["call:readString"].union(got["call:readBlockString"])
	chk(r2, "string start", strStart, ivPoints('"'), rt)
	chk(r2, "comment start", got["call:readComment"], ivPoints('#'), rt)
	// NameContinue: the set for which readName advances the cursor
	if rn := p.Func("lexer.(*Lexer).readName"); rn == nil {
		r2.AnchorLost("lexer.(*Lexer).readName")
	} else {
		g, ok := advanceSet(p, rn, lexT, 0x10FFFF)
		if !ok {
			r2.Fail(rn.Pos(), p.FuncName(rn), "NameContinue not found", "readName no longer decides per character whether to continue the name")
		} else {
			chk(r2, "NameContinue (readName continues)", g, nameCont, rn)
		}
	}

	// ---- R3 ignored characters
	r3 := c.Rule("R3", "ignored characters", 2)
	if ws := p.Func("lexer.(*Lexer).ws"); ws == nil {
		r3.AnchorLost("lexer.(*Lexer).ws")
	} else {
		g, ok := advanceSet(p, ws, lexT, 255)
		if !ok {
			r3.Fail(ws.Pos(), p.FuncName(ws), "ignored set not found", "ws no longer dispatches on the next byte")
		} else {
			chk(r3, "ignored first bytes (tab, LF, CR, space, comma, BOM lead)", g, ivPoints(0x09, 0x0A, 0x0D, 0x20, 0x2C, 0xEF), ws)
		}
		// BOM continuation bytes
		var bom []int64
		allInstrs(ws, func(in ssa.Instruction) {
			if bo, ok := in.(*ssa.BinOp); ok && bo.Op == token.EQL {
				if k, ok := constNum(bo.Y); ok && (k == 0xBB || k == 0xBF) {
					bom = append(bom, k)
				}
			}
		})
		sort.Slice(bom, func(i, j int) bool { return bom[i] < bom[j] })
		bomString := false
		allInstrs(ws, func(in ssa.Instruction) {
			if bo, ok := in.(*ssa.BinOp); ok && bo.Op == token.EQL {
				for _, o := range []ssa.Value{bo.X, bo.Y} {
					if s, ok := constString(o); ok && s == "\xef\xbb\xbf" {
						bomString = true
					}
				}
			}
		})
		// strings.HasPrefix(Input[end:], "\xef\xbb\xbf")
		allInstrs(ws, func(in ssa.Instruction) {
			if call, ok := in.(*ssa.Call); ok && calleeName(call) == "strings.HasPrefix" && len(call.Call.Args) == 2 {
				if s, ok := constString(call.Call.Args[1]); ok && s == "\xef\xbb\xbf" {
					bomString = true
				}
			}
		})
		if bomString || len(bom) == 2 && bom[0] == 0xBB && bom[1] == 0xBF {
			r3.OK("the BOM is EF BB BF", "")
		} else {
			r3.Fail(ws.Pos(), p.FuncName(ws), "BOM bytes", "the byte order mark is not matched as EF BB BF")
		}
	}

	// ---- R4 / R5 escapes
	r4 := c.Rule("R4", "single-character escapes", 6)
	r5 := c.Rule("R5", "unicode escapes", 3)
	// a decoded character reaches the value buffer as UTF-8: written with WriteRune, or with WriteByte only where the
	// character is known to be below 0x80 (a byte >= 0x80 on its own is not the encoding of any character)
	for _, fn := range p.FuncsIn("lexer") {
		allInstrs(fn, func(in ssa.Instruction) {
			call, ok := in.(*ssa.Call)
			if !ok || !strings.HasSuffix(calleeName(call), ").WriteByte") || len(call.Call.Args) != 2 {
				return
			}
			cv, ok := call.Call.Args[1].(*ssa.Convert)
			if !ok {
				return
			}
			b, ok := cv.X.Type().Underlying().(*types.Basic)
			if !ok || (b.Kind() != types.Int32 && b.Kind() != types.Int && b.Kind() != types.Uint32) {
				return // a byte copied as a byte
			}
			src := cv.X
			start := fn.Blocks[0]
			if si, ok := src.(ssa.Instruction); ok {
				start = si.Block()
			}
			sets := reachSets(fn, src, start, ivFull(0x10FFFF))
			set := sets[in.Block()]
			if len(set) > 0 && set[len(set)-1][1] >= 0x80 {
				r5.Fail(in.Pos(), p.FuncName(fn), "character written as one byte for "+set.String(), "a character of U+0080 or above is narrowed to a single byte and written without UTF-8 encoding: the string value holds a byte sequence that is not the character (and may not be valid UTF-8)")
			} else {
				r5.OK("WriteByte(byte(c)) in "+p.FuncName(fn)+" at "+p.Pos(in.Pos()), "c is below 0x80 wherever the write is reached")
			}
		})
	}
	rs := p.Func("lexer.(*Lexer).readString")
	if rs == nil {
		r4.AnchorLost("lexer.(*Lexer).readString")
	} else {
		// the escape byte: Input[end+1], read in readString or in a helper it hands the escape sequence to
		var esc ssa.Value
		cands := []*ssa.Function{rs}
		seenC := map[*ssa.Function]bool{rs: true}
		for i := 0; i < len(cands) && i < 8; i++ {
			allInstrs(cands[i], func(in ssa.Instruction) {
				if ci, ok := in.(ssa.CallInstruction); ok {
					if h := ci.Common().StaticCallee(); h != nil && !seenC[h] && h.Pkg == rs.Pkg && len(h.Blocks) > 0 && h.Signature.Recv() != nil {
						seenC[h] = true
						cands = append(cands, h)
					}
				}
			})
		}
		for _, cand := range cands {
			if esc != nil {
				break
			}
			allInstrs(cand, func(in ssa.Instruction) {
				if esc != nil {
					return
				}
				idx, v, okI := strIndex(in)
				if !okI || !isByteVal(v) {
					return
				}
				if bo, ok := idx.(*ssa.BinOp); ok && bo.Op == token.ADD {
					if k, ok := constInt(bo.Y); ok && k == 1 && isFieldLoad(bo.X, lexT, "end") {
						// followed by a comparison with 'u' somewhere in the function: the escape dispatch
						esc = v
						rs = cand
					}
				}
			})
		}
		if esc == nil {
			r4.AnchorLost("the escape character Input[end+1] in readString")
		} else {
			sets := reachSets(rs, esc, esc.(ssa.Instruction).Block(), ivFull(255))
			wrote := map[int64]ivset{} // written code point -> escape chars ; -1 = the escape char itself
			for b, set := range sets {
				for _, in := range b.Instrs {
					call, ok := in.(*ssa.Call)
					if !ok {
						continue
					}
					if nm := calleeName(call); strings.HasSuffix(nm, ".WriteByte") && len(call.Call.Args) == 2 {
						if k, ok := constNum(call.Call.Args[1]); ok {
							wrote[k] = wrote[k].union(set)
						} else if sameScrutinee(call.Call.Args[1], esc) {
							wrote[-1] = wrote[-1].union(set)
						} else if tab, idx, isOK, _ := tableLookup(p, call.Call.Args[1]); tab != nil && !isOK && sameScrutinee(stripChange(idx), esc) {
							// the character comes from a read-only table keyed by the escape byte
							for _, e := range tab.entries {
								kk, okK := constant.Int64Val(e.key)
								vv, okV := constNum(e.val)
								if !okK || !okV || e.val == nil {
									wrote[-2] = wrote[-2].union(set)
									continue
								}
								if !set.contains(kk) {
									continue
								}
								if vv == kk {
									wrote[-1] = wrote[-1].union(ivPoints(kk))
								} else {
									wrote[vv] = wrote[vv].union(ivPoints(kk))
								}
							}
						}
					}
				}
			}
			chk(r4, "escapes that stand for themselves", wrote[-1], ivPoints('"', '/', '\\'), rs)
			for _, pr := range [][2]int64{{'b', 8}, {'f', 12}, {'n', 10}, {'r', 13}, {'t', 9}} {
				chk(r4, fmt.Sprintf("escape written as U+%04X", pr[1]), wrote[pr[1]], ivPoints(pr[0]), rs)
			}
			for k, g := range wrote {
				switch k {
				case -1, 8, 12, 10, 13, 9:
				default:
					r4.Fail(rs.Pos(), p.FuncName(rs), fmt.Sprintf("extra escape %s -> U+%04X", g, k), "an escape outside the grammar's table is decoded")
				}
			}
			// \u: the window passed to unhex has four bytes
			unhex := p.Func("lexer.unhex")
			if unhex == nil {
				r5.AnchorLost("lexer.unhex")
			} else {
				okW := false
				for _, ci := range callsTo([]*ssa.Function{rs}, unhex) {
					if sl, ok := ci.Common().Args[0].(*ssa.Slice); ok && sl.Low != nil && sl.High != nil {
						lo, ok1 := sl.Low.(*ssa.BinOp)
						hi, ok2 := sl.High.(*ssa.BinOp)
						if ok1 && ok2 && lo.Op == token.ADD && hi.Op == token.ADD && isFieldLoad(lo.X, lexT, "end") && isFieldLoad(hi.X, lexT, "end") {
							a, _ := constInt(lo.Y)
							b, _ := constInt(hi.Y)
							if b-a == 4 && a == 2 {
								okW = true
							}
						}
					}
				}
				if okW {
					r5.OK(`\u is followed by a window of exactly four bytes, starting after "\u"`, "")
				} else {
					r5.Fail(rs.Pos(), p.FuncName(rs), `\u window`, `the text handed to unhex is not Input[end+2:end+6]`)
				}
				// the 'u' branch
				uset := ivset{}
				for b, set := range sets {
					for _, in := range b.Instrs {
						if call, ok := in.(*ssa.Call); ok && call.Call.StaticCallee() == unhex {
							uset = uset.union(set)
						}
					}
				}
				chk(r5, `the escape that introduces a unicode escape`, uset, ivPoints('u'), rs)
				c03Unhex(c, r5, unhex)
			}
		}
	}

	// ---- R6 SourceCharacter
	r6 := c.Rule("R6", "SourceCharacter in comments, strings and block strings", 3)
	if rc := p.Func("lexer.(*Lexer).readComment"); rc == nil {
		r6.AnchorLost("lexer.(*Lexer).readComment")
	} else {
		g, ok := advanceSet(p, rc, lexT, 0x10FFFF)
		want := ivOf(0x09, 0x09, 0x20, 0x10FFFF)
		if !ok {
			// a scan with strings.IndexFunc: the predicate's true set is the set of characters that end the comment
			allInstrs(rc, func(in ssa.Instruction) {
				call, isCall := in.(*ssa.Call)
				if !isCall || !strings.HasSuffix(calleeName(call), ".IndexFunc") || len(call.Call.Args) != 2 {
					return
				}
				var pred *ssa.Function
				switch x := call.Call.Args[1].(type) {
				case *ssa.Function:
					pred = x
				case *ssa.MakeClosure:
					pred = x.Fn.(*ssa.Function)
				}
				if pred == nil || len(pred.Params) != 1 || len(pred.Blocks) == 0 {
					return
				}
				stop, decided := predicateTrueSet(pred)
				if decided {
					cont := ivFull(0x10FFFF)
					for _, x := range stop.norm() {
						cont = cont.intersectRange(-1, x[0]-1).union(cont.intersectRange(x[1]+1, 1<<40))
					}
					g, ok = cont, true
				}
			})
		}
		if !ok {
			r6.Fail(rc.Pos(), p.FuncName(rc), "comment characters not decided per character", "readComment no longer tests each character against SourceCharacter-minus-LineTerminator: a lone CR, or a control character, inside a comment is handled differently from the grammar")
		} else {
			chk(r6, "comment characters (SourceCharacter but not LineTerminator)", g, want, rc)
		}
	}
	for _, pr := range []struct {
		fn   string
		want ivset
		what string
	}{
		{"lexer.(*Lexer).readString", ivOf(0, 8, 0x0B, 0x0C, 0x0E, 0x1F), "characters rejected inside a quoted string (control characters other than tab; LF and CR end it)"},
		{"lexer.(*Lexer).readBlockString", ivOf(0, 8, 0x0B, 0x0C, 0x0E, 0x1F), "characters rejected inside a block string (control characters other than tab, LF, CR)"},
	} {
		fn := p.Func(pr.fn)
		if fn == nil {
			r6.AnchorLost(pr.fn)
			continue
		}
		g, ok := errorSet(p, fn, lexT, "Invalid character within String")
		if !ok {
			r6.Fail(fn.Pos(), p.FuncName(fn), "no SourceCharacter test", "the function no longer rejects control characters")
			continue
		}
		chk(r6, pr.what, g, pr.want, fn)
	}

	lexerAcceptsHighCharacters(c, r6)

	// ---- R7 block strings
	r7 := c.Rule("R7", "block string escape and whitespace", 3)
	if rb := p.Func("lexer.(*Lexer).readBlockString"); rb != nil {
		okEsc, okWrite := false, false
		for _, sub := range withLexerCallees(rb) {
			allInstrs(sub, func(in ssa.Instruction) {
				if comparesWithConst(in, `\"""`) {
					okEsc = true
				}
				if call, ok := in.(*ssa.Call); ok && strings.HasSuffix(calleeName(call), ".WriteString") && len(call.Call.Args) == 2 {
					if s, ok := constString(call.Call.Args[1]); ok && s == `"""` {
						okWrite = true
					}
				}
			})
		}
		if okEsc && okWrite {
			r7.OK(`block strings decode \""" to """ and nothing else`, "")
		} else {
			r7.Fail(rb.Pos(), p.FuncName(rb), "block string escape", `the only escape of block strings (\""") is not decoded as """`)
		}
	} else {
		r7.AnchorLost("lexer.(*Lexer).readBlockString")
	}
	if lw := p.Func("lexer.leadingWhitespace"); lw == nil {
		r7.AnchorLost("lexer.leadingWhitespace")
	} else {
		// the rune of the range loop: the set for which the loop continues (does not return the index)
		var rv ssa.Value
		allInstrs(lw, func(in ssa.Instruction) {
			if ex, ok := in.(*ssa.Extract); ok && ex.Index == 2 {
				if _, isNext := ex.Tuple.(*ssa.Next); isNext {
					rv = ex
				}
			}
		})
		var predStop ivset
		predOK := false
		if rv == nil {
			// a byte loop: the byte read at the loop index; the set for which the index is returned
			var bv ssa.Value
			var bin ssa.Instruction
			allInstrs(lw, func(in ssa.Instruction) {
				if _, v, ok := strIndex(in); ok && isByteVal(v) && bv == nil {
					bv, bin = v, in
				}
			})
			if bv != nil {
				sets := reachSets(lw, bv, bin.Block(), ivFull(0xFF))
				var stop ivset
				for b, set := range sets {
					if ret, ok := b.Instrs[len(b.Instrs)-1].(*ssa.Return); ok {
						if _, isC := ret.Results[0].(*ssa.Const); !isC {
							stop = stop.union(set)
						}
					}
				}
				// bytes >= 0x80 belong to characters that are not white space: they must stop the scan
				if len(stop.intersectRange(0x80, 0xFF).norm()) > 0 && stop.intersectRange(0x80, 0xFF).eq(ivOf(0x80, 0xFF)) {
					predStop = stop.intersectRange(0, 0x7F).union(ivOf(0x80, 0x10FFFF))
					predOK = true
				}
			}
		}
		if rv == nil && !predOK {
			allInstrs(lw, func(in ssa.Instruction) {
				call, isCall := in.(*ssa.Call)
				if !isCall || !strings.HasSuffix(calleeName(call), ".IndexFunc") || len(call.Call.Args) != 2 {
					return
				}
				var pred *ssa.Function
				switch x := call.Call.Args[1].(type) {
				case *ssa.Function:
					pred = x
				case *ssa.MakeClosure:
					pred = x.Fn.(*ssa.Function)
				}
				if st, ok := predicateTrueSet(pred); ok {
					predStop, predOK = st, true
				}
			})
		}
		if predOK {
			ws := ivFull(0x10FFFF)
			for _, x := range predStop.norm() {
				ws = ws.intersectRange(-1, x[0]-1).union(ws.intersectRange(x[1]+1, 1<<40))
			}
			chk(r7, "block string WhiteSpace", ws, ivPoints(0x09, 0x20), lw)
		} else if rv == nil {
			r7.AnchorLost("the rune variable of leadingWhitespace")
		} else {
			sets := reachSets(lw, rv, rv.(ssa.Instruction).Block(), ivFull(0x10FFFF))
			var stop ivset
			for b, set := range sets {
				if ret, ok := b.Instrs[len(b.Instrs)-1].(*ssa.Return); ok {
					if _, isC := ret.Results[0].(*ssa.Const); !isC {
						stop = stop.union(set)
					}
				}
			}
			ws := ivFull(0x10FFFF)
			for _, x := range stop {
				ws = ws.intersectRange(-1, x[0]-1).union(ws.intersectRange(x[1]+1, 1<<40))
			}
			chk(r7, "block string WhiteSpace", ws, ivPoints(0x09, 0x20), lw)
		}
	}
	// no Unicode-aware whitespace helpers in the lexer
	badWS := ""
	for _, fn := range p.FuncsIn("lexer") {
		allInstrs(fn, func(in ssa.Instruction) {
			if ci, ok := in.(ssa.CallInstruction); ok {
				switch nm := calleeName(ci); nm {
				case "strings.TrimSpace", "strings.Fields", "unicode.IsSpace", "strings.TrimLeftFunc", "strings.TrimRightFunc", "bytes.TrimSpace":
					badWS = nm + " in " + p.FuncName(fn)
				}
			}
		})
	}
	if badWS == "" {
		r7.OK("no Unicode whitespace function is used by the lexer", "")
	} else {
		r7.Fail(token.NoPos, "lexer", "Unicode whitespace function "+badWS, "GraphQL WhiteSpace is only tab and space (and line terminators are LF, CR): "+badWS+" also treats U+0085, U+00A0, U+2028 … as space, so text made of such characters is dropped or split differently from the grammar")
	}

	// ---- R8 number follow set
	r8 := c.Rule("R8", "a number is not followed by a name start or a dot", 1)
	if rn := p.Func("lexer.(*Lexer).readNumber"); rn == nil {
		r8.AnchorLost("lexer.(*Lexer).readNumber")
	} else {
		// every makeToken(Int|Float) call must be reached only for look-ahead bytes outside [.A-Za-z_]
		forbidden := ivOf('.', '.', 'A', 'Z', '_', '_', 'a', 'z')
		// find a byte load Input[end] whose block dominates the token creation
		var toks []*ssa.Call
		allInstrs(rn, func(in ssa.Instruction) {
			if call, ok := in.(*ssa.Call); ok && call.Call.StaticCallee() == makeTok {
				if k, ok := constInt(call.Call.Args[1]); ok && (kindName[k] == "Int" || kindName[k] == "Float") {
					toks = append(toks, call)
				}
			}
		})
		if len(toks) == 0 {
			r8.AnchorLost("makeToken(Int) / makeToken(Float) in readNumber")
		}
		for _, tk := range toks {
			okT := false
			var seenSet ivset
			allInstrs(rn, func(in ssa.Instruction) {
				v, ok := in.(ssa.Value)
				if !ok || okT {
					return
				}
				isLook := false
				if idx, vv, okI := strIndex(in); okI && isByteVal(vv) {
					isLook = isFieldLoad(idx, lexT, "end")
				}
				if !isLook || !in.Block().Dominates(tk.Block()) && in.Block() != tk.Block() {
					// the look-ahead may sit under `end < len`: accept a block from which the token block is reachable
					if !isLook {
						return
					}
				}
				sets := reachSets(rn, v, in.Block(), ivFull(255))
				if set, ok := sets[tk.Block()]; ok {
					seenSet = set
					inter := ivset{}
					for _, f := range forbidden {
						inter = inter.union(set.intersectRange(f[0], f[1]))
					}
					if len(inter) == 0 {
						okT = true
					}
				}
			})
			kn := "Int"
			if k, _ := constInt(tk.Call.Args[1]); kindName[k] == "Float" {
				kn = "Float"
			}
			if okT {
				r8.OK(kn+" token is made only when the next byte is not a name start or a dot", "")
			} else {
				r8.Fail(tk.Pos(), p.FuncName(rn), kn+" token made without a follow-set test", fmt.Sprintf("no look-ahead on the byte after the number excludes NameStart and '.' before the %s token is made (bytes reaching it: %s): `1a`, `0x1`, `1.5e3x` lex as a number followed by a name, where the grammar admits no token", kn, seenSet))
			}
		}
	}

	// ---- R9 token extents are counted in characters (shared with C04.R3 / C04.R6)
	r9 := c.Rule("R9", "the rune cursor is never advanced by a byte length", 10)
	c04CursorUnits(c, r9)
}

// advanceSet: the values of the scrutinised character for which fn advances the cursor (stores to Lexer.end).
// The scrutinee is the first rune/byte obtained from the input in fn.
func advanceSet(p *Program, fn *ssa.Function, lexT *types.Named, max int64) (ivset, bool) {
	scr := scrutinee(p, fn)
	if scr == nil {
		return nil, false
	}
	sets := reachSets(fn, scr, scr.(ssa.Instruction).Block(), ivFull(max))
	var out ivset
	found := false
	for b, set := range sets {
		for _, in := range b.Instrs {
			if advancesCursor(p, in, lexT, 0) {
				out = out.union(set)
				found = true
			}
		}
	}
	return out, found
}

// advancesCursor: in stores to the byte cursor, or calls a function of the module that only moves the cursors (a
// stepping helper: straight-line code, no reads of the input).
func advancesCursor(p *Program, in ssa.Instruction, lexT *types.Named, depth int) bool {
	if st, ok := in.(*ssa.Store); ok {
		if fa, ok := st.Addr.(*ssa.FieldAddr); ok {
			n, f, _, _ := fieldOf(fa)
			return n != nil && sameNamed(n, lexT) && f == "end"
		}
		return false
	}
	ci, ok := in.(ssa.CallInstruction)
	if !ok || depth > 1 {
		return false
	}
	g := ci.Common().StaticCallee()
	if g == nil || !p.inModule(g) || !isStepper(p, g, lexT) {
		return false
	}
	return true
}

// isStepper: a one-block function of the lexer that stores to the byte cursor and reads nothing from the input.
func isStepper(p *Program, g *ssa.Function, lexT *types.Named) bool {
	if len(g.Blocks) != 1 || g.Signature.Recv() == nil || !sameNamed(namedOf(g.Signature.Recv().Type()), lexT) {
		return false
	}
	stores := false
	clean := true
	for _, in := range g.Blocks[0].Instrs {
		switch x := in.(type) {
		case *ssa.Store:
			if fa, ok := x.Addr.(*ssa.FieldAddr); ok {
				if n, f, _, _ := fieldOf(fa); n != nil && sameNamed(n, lexT) && f == "end" {
					stores = true
				}
			}
		case ssa.CallInstruction:
			clean = false
		default:
			if _, _, ok := strIndex(in); ok {
				clean = false
			}
		}
	}
	return stores && clean
}

// scrutinee: the character value fn decides on — a byte loaded from Input, or the rune returned by peek().
func scrutinee(p *Program, fn *ssa.Function) ssa.Value {
	var scr ssa.Value
	allInstrs(fn, func(in ssa.Instruction) {
		if scr != nil {
			return
		}
		switch x := in.(type) {
		case *ssa.Extract:
			if call, ok := x.Tuple.(*ssa.Call); ok && x.Index == 0 {
				if g := call.Call.StaticCallee(); g != nil && (g.Name() == "peek" || calleeName(call) == "unicode/utf8.DecodeRuneInString") {
					scr = x
				}
			}
		default:
			if _, v, ok := strIndex(in); ok && isByteVal(v) {
				scr = v
			}
		}
	})
	return scr
}

// errorSet: the values of the scrutinised byte for which fn reports the error whose format starts with msg.
func errorSet(p *Program, fn *ssa.Function, lexT *types.Named, msg string) (ivset, bool) {
	scr := scrutinee(p, fn)
	if scr == nil {
		return nil, false
	}
	sets := reachSets(fn, scr, scr.(ssa.Instruction).Block(), ivFull(255))
	var out ivset
	found := false
	for b, set := range sets {
		for _, in := range b.Instrs {
			if call, ok := in.(*ssa.Call); ok {
				if g := call.Call.StaticCallee(); g != nil && g.Name() == "makeError" && len(call.Call.Args) > 1 {
					if s, ok := constString(call.Call.Args[1]); ok && strings.HasPrefix(s, msg) {
						out = out.union(set)
						found = true
					}
				}
			}
		}
	}
	return out, found
}

// c03Unhex: unhex accepts exactly [0-9A-Fa-f] with the weights of hexadecimal digits.
func c03Unhex(c *Ctx, r *RuleResult, unhex *ssa.Function) {
	p := c.P
	// delegation to a more liberal parser
	bad := ""
	allInstrs(unhex, func(in ssa.Instruction) {
		if ci, ok := in.(ssa.CallInstruction); ok {
			if nm := calleeName(ci); strings.HasPrefix(nm, "strconv.Parse") || strings.HasPrefix(nm, "fmt.Sscan") || strings.HasPrefix(nm, "encoding/hex.") {
				bad = nm
			}
		}
	})
	if bad != "" {
		r.Fail(unhex.Pos(), p.FuncName(unhex), "unhex delegates to "+bad, bad+" accepts more than four hexadecimal digits' worth of syntax (a leading sign, underscores, prefixes): `\\u+041` would decode instead of being an invalid escape")
		return
	}
	var cv ssa.Value
	allInstrs(unhex, func(in ssa.Instruction) {
		if ex, ok := in.(*ssa.Extract); ok && ex.Index == 2 {
			if _, isNext := ex.Tuple.(*ssa.Next); isNext {
				cv = ex
			}
		}
	})
	maxChar := int64(0x10FFFF)
	if cv == nil {
		// a loop over the bytes: the byte read at the loop index
		allInstrs(unhex, func(in ssa.Instruction) {
			if _, v, ok := strIndex(in); ok && isByteVal(v) && cv == nil {
				cv = v
				maxChar = 0xFF
			}
		})
	}
	if cv == nil {
		r.Fail(unhex.Pos(), p.FuncName(unhex), "no per-character loop", "unhex no longer examines each character")
		return
	}
	sets := reachSets(unhex, cv, cv.(ssa.Instruction).Block(), ivFull(maxChar))
	// classify blocks by the subtraction constant
	type w struct {
		sub, add int64
	}
	got := map[w]ivset{}
	var reject ivset
	for b, set := range sets {
		for _, in := range b.Instrs {
			if bo, ok := in.(*ssa.BinOp); ok && bo.Op == token.SUB && sameScrutinee(bo.X, cv) {
				if k, ok := constNum(bo.Y); ok {
					add := int64(0)
					for _, ref := range *bo.Referrers() {
						if b2, ok := ref.(*ssa.BinOp); ok && b2.Op == token.ADD {
							if a, ok := constNum(b2.Y); ok {
								add = a
							}
						}
					}
					got[w{k, add}] = got[w{k, add}].union(set)
				}
			}
		}
		if ret, ok := b.Instrs[len(b.Instrs)-1].(*ssa.Return); ok && len(ret.Results) == 2 {
			if cst, ok := ret.Results[1].(*ssa.Const); ok && cst.Value != nil && cst.Value.String() == "false" {
				reject = reject.union(set)
			}
		}
	}
	want := map[w]ivset{{'0', 0}: ivOf('0', '9'), {'a', 10}: ivOf('a', 'f'), {'A', 10}: ivOf('A', 'F')}
	okAll := true
	for k, ws := range want {
		if !got[k].eq(ws) {
			okAll = false
			r.Fail(unhex.Pos(), p.FuncName(unhex), fmt.Sprintf("hex digits with weight c-%q+%d are %s", rune(k.sub), k.add, got[k]), fmt.Sprintf("the digits valued as c - %q + %d should be %s", rune(k.sub), k.add, ws))
		}
	}
	for k, g := range got {
		if _, ok := want[k]; !ok {
			okAll = false
			r.Fail(unhex.Pos(), p.FuncName(unhex), fmt.Sprintf("extra digit class %s (c-%q+%d)", g, rune(k.sub), k.add), "characters outside [0-9A-Fa-f] are given a value")
		}
	}
	hex := ivOf('0', '9', 'A', 'F', 'a', 'f')
	comp := ivFull(maxChar)
	for _, x := range hex {
		comp = comp.intersectRange(-1, x[0]-1).union(comp.intersectRange(x[1]+1, 1<<40))
	}
	if !reject.eq(comp) {
		okAll = false
		r.Fail(unhex.Pos(), p.FuncName(unhex), "rejected characters "+reject.String(), "unhex must reject exactly the characters outside [0-9A-Fa-f]")
	}
	// the accumulator is shifted by 4 bits per character
	sh := false
	allInstrs(unhex, func(in ssa.Instruction) {
		if bo, ok := in.(*ssa.BinOp); ok && bo.Op == token.SHL {
			if k, ok := constNum(bo.Y); ok && k == 4 {
				sh = true
			}
		}
	})
	if !sh {
		okAll = false
		r.Fail(unhex.Pos(), p.FuncName(unhex), "no 4-bit shift", "digits are not combined as base 16")
	}
	if okAll {
		r.OK("unhex accepts exactly [0-9A-Fa-f], valued c-'0', c-'a'+10, c-'A'+10, combined base 16", "")
	}
}

// strIndex: in is a string/array element read; returns (index value, result).
func strIndex(in ssa.Instruction) (idx ssa.Value, v ssa.Value, ok bool) {
	switch x := in.(type) {
	case *ssa.Lookup:
		if _, isMap := x.X.Type().Underlying().(*types.Map); !isMap {
			return x.Index, x, true
		}
	case *ssa.Index:
		return x.Index, x, true
	case *ssa.UnOp:
		if ia, isIA := x.X.(*ssa.IndexAddr); isIA && x.Op == token.MUL {
			return ia.Index, x, true
		}
	}
	return nil, nil, false
}

func isByteVal(v ssa.Value) bool {
	b, ok := v.Type().Underlying().(*types.Basic)
	return ok && b.Kind() == types.Uint8
}

// predicateTrueSet: the set of characters for which a one-parameter predicate (a closure handed to
// strings.IndexFunc and the like) returns true, by interval propagation over its branches.
func predicateTrueSet(pred *ssa.Function) (stop ivset, decided bool) {
	if pred == nil || len(pred.Params) != 1 || len(pred.Blocks) == 0 {
		return nil, false
	}
	sets := reachSets(pred, pred.Params[0], pred.Blocks[0], ivFull(0x10FFFF))
	decided = true
	for b, set := range sets {
		if ret, isRet := b.Instrs[len(b.Instrs)-1].(*ssa.Return); isRet {
			if cst, isC := ret.Results[0].(*ssa.Const); isC && cst.Value != nil {
				if cst.Value.String() == "true" {
					stop = stop.union(set)
				}
			} else if bo, isB := ret.Results[0].(*ssa.BinOp); isB {
				// `return r <= 0x1f && r != '\t'` compiles to a phi or a final comparison: split on it
				if k, okK := constNum(bo.Y); okK && sameScrutinee(bo.X, pred.Params[0]) {
					stop = stop.union(refineSet(set, bo.Op, k, true))
				} else {
					decided = false
				}
			} else if ph, isPhi := ret.Results[0].(*ssa.Phi); isPhi {
				for i, e := range ph.Edges {
					ps := sets[b.Preds[i]]
					if cst, isC := e.(*ssa.Const); isC && cst.Value != nil {
						if cst.Value.String() == "true" {
							stop = stop.union(ps)
						}
					} else if bo, isB := e.(*ssa.BinOp); isB {
						if k, okK := constNum(bo.Y); okK && sameScrutinee(bo.X, pred.Params[0]) {
							stop = stop.union(refineSet(ps, bo.Op, k, true))
						} else {
							decided = false
						}
					} else {
						decided = false
					}
				}
			} else {
				decided = false
			}
		}
	}
	return stop, decided
}

// comparesWithConst: in compares a string with the constant c — `x == c` or strings.HasPrefix(x, c).
func comparesWithConst(in ssa.Instruction, c string) bool {
	if bo, ok := in.(*ssa.BinOp); ok && bo.Op == token.EQL {
		for _, o := range []ssa.Value{bo.X, bo.Y} {
			if s, ok := constString(o); ok && s == c {
				return true
			}
		}
	}
	if call, ok := in.(*ssa.Call); ok && len(call.Call.Args) == 2 {
		if nm := calleeName(call); nm == "strings.HasPrefix" || nm == "bytes.HasPrefix" {
			if s, ok := constString(call.Call.Args[1]); ok && s == c {
				return true
			}
		}
	}
	return false
}

// lexerAcceptsHighCharacters (C03.R6, C12.R2, C13.R2): no decoded character above U+007F is rejected inside strings,
// block strings and comments.
func lexerAcceptsHighCharacters(c *Ctx, r *RuleResult) {
	p := c.P
	// no character above U+007F is rejected: inside strings, block strings and comments every SourceCharacter from
	// U+0080 up is allowed, so an error under a test of a decoded rune's value can only concern a malformed encoding
	// (rune error AND width one)
	for _, name := range []string{"lexer.(*Lexer).readString", "lexer.(*Lexer).readBlockString", "lexer.(*Lexer).readComment"} {
		fn := p.Func(name)
		if fn == nil {
			continue
		}
		nDec, bad := 0, false
		allInstrs(fn, func(in ssa.Instruction) {
			ex, ok := in.(*ssa.Extract)
			if !ok || ex.Index != 0 {
				return
			}
			call, ok := ex.Tuple.(*ssa.Call)
			if !ok {
				return
			}
			if nm := calleeName(call); nm != "unicode/utf8.DecodeRuneInString" && !(call.Call.StaticCallee() != nil && call.Call.StaticCallee().Name() == "peek" && call.Call.StaticCallee().Pkg == fn.Pkg) {
				return
			}
			nDec++
			sets := reachSets(fn, ex, ex.Block(), ivFull(0x10FFFF))
			for _, b := range fn.Blocks {
				isErr := false
				for _, bi := range b.Instrs {
					if c2, ok := bi.(*ssa.Call); ok && c2.Call.StaticCallee() != nil && c2.Call.StaticCallee().Name() == "makeError" {
						isErr = true
					}
				}
				if !isErr {
					continue
				}
				dep, widthOne := false, false
				for _, cd := range condsAt(b) {
					bo, ok := cd.V.(*ssa.BinOp)
					if !ok {
						continue
					}
					if sameScrutinee(bo.X, ex) || sameScrutinee(bo.Y, ex) {
						dep = true
					}
					// width == 1 of the same decode
					for _, o := range []ssa.Value{bo.X, bo.Y} {
						if e2, ok := stripChange(o).(*ssa.Extract); ok && e2.Tuple == ex.Tuple && e2.Index == 1 {
							widthOne = true
						}
					}
				}
				if !dep || widthOne {
					continue
				}
				set := sets[b].intersectRange(0x80, 0x10FFFF)
				if len(set) > 0 {
					bad = true
					r.Fail(b.Instrs[0].Pos(), p.FuncName(fn), "characters above U+007F rejected: "+set.String(), "an error is raised for decoded characters "+set.String()+": every character from U+0080 up is a SourceCharacter and must be accepted here (a string holding it, written by the formatter as it is, would no longer parse)")
				}
			}
		})
		if nDec > 0 && !bad {
			r.OK(p.FuncName(fn)+": no decoded character above U+007F is rejected", "")
		}
	}

}

// withLexerCallees: fn and the methods of the same package it hands part of its scan to (transitively).
func withLexerCallees(fn *ssa.Function) []*ssa.Function {
	out := []*ssa.Function{fn}
	seen := map[*ssa.Function]bool{fn: true}
	for i := 0; i < len(out) && i < 12; i++ {
		allInstrs(out[i], func(in ssa.Instruction) {
			if ci, ok := in.(ssa.CallInstruction); ok {
				if h := ci.Common().StaticCallee(); h != nil && !seen[h] && h.Pkg == fn.Pkg && len(h.Blocks) > 0 && h.Signature.Recv() != nil && !strings.HasPrefix(h.Name(), "make") {
					seen[h] = true
					out = append(out, h)
				}
			}
		})
	}
	return out
}
