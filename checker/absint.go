package main

import (
	"fmt"
	"go/constant"
	"go/token"
	"go/types"
	"os"
	"sort"
	"strings"

	"golang.org/x/tools/go/ssa"
)

// ---------------------------------------------------------------------------
// Abstract interpreter over SSA with the Zone x Karr domain (DESIGN §3.1). Written for the two
// cursor-driven state machines of this repository; callees in the analysed package are inlined
// (no recursion in package lexer), cells are the int fields of the single receiver object.

type nst struct {
	z *zone
	k *karr
	// cache of canonical forms of the zone variables (valid for cz/ck generations)
	canon    []linexp
	canonSig map[string][]int
	cz, ck   int
	cvalid   bool
}

// canonForms: the Karr-reduced form of every zone variable, and an index by signature.
func (s *nst) canonForms() ([]linexp, map[string][]int) {
	if s.cvalid && s.cz == s.z.gen && s.ck == s.k.gen && len(s.canon) == len(s.z.names) {
		return s.canon, s.canonSig
	}
	names := s.z.names
	canon := make([]linexp, len(names))
	sig := map[string][]int{}
	for i, nm := range names {
		if i == 0 {
			canon[i] = lconst(0)
		} else {
			canon[i] = s.k.reduce(lvar(nm))
		}
		sg := sigOf(canon[i])
		sig[sg] = append(sig[sg], i)
	}
	s.canon, s.canonSig, s.cz, s.ck, s.cvalid = canon, sig, s.z.gen, s.k.gen, true
	return canon, sig
}

func newNst() *nst { return &nst{z: newZone(), k: &karr{}} }
func (s *nst) clone() *nst {
	return &nst{z: s.z.clone(), k: s.k.clone()}
}
func (s *nst) isBottom() bool {
	s.z.close()
	return s.z.bottom || s.k.bottom
}

func floorDiv(n, d int64) int64 {
	q := n / d
	if (n%d != 0) && ((n < 0) != (d < 0)) {
		q--
	}
	return q
}

// ub: an upper bound of e (inf if none).
func (s *nst) ub(e linexp) int64 {
	if s.isBottom() {
		return -inf
	}
	r := s.k.reduce(e)
	if r.isConst() {
		return floorDiv(r.k.n, r.k.d)
	}
	best := inf
	// interval arithmetic on the original and on the reduced form
	for _, x := range []linexp{e, r} {
		sum := x.k
		ok := true
		total := int64(0)
		if sum.d != 1 {
			ok = false
		} else {
			total = sum.n
		}
		for v, c := range x.co {
			if !ok {
				break
			}
			if c.d != 1 {
				ok = false
				break
			}
			var b int64
			if c.n > 0 {
				b = s.z.ub(v, "")
			} else {
				lb := s.z.ub("", v) // -lower
				b = lb
			}
			if b >= inf {
				ok = false
				break
			}
			if c.n > 0 {
				total += c.n * b
			} else {
				total += (-c.n) * b
			}
		}
		if ok && total < best {
			best = total
		}
	}
	// fast path: the reduced form is itself a difference of two variables (the zone knows every two-variable
	// equality, see tighten)
	if x, y, k, ok := diffForm(r); ok {
		if b := s.z.ub(x, y); b < inf && b+k < best {
			best = b + k
		}
		if x2, y2, k2, ok2 := diffForm(e); ok2 {
			if b := s.z.ub(x2, y2); b < inf && b+k2 < best {
				best = b + k2
			}
		}
		return best
	}
	// one difference pair plus intervals for the rest: p - q + rest
	for _, x := range []linexp{e, r} {
		if len(x.co) < 3 || len(x.co) > 6 || x.k.d != 1 {
			continue
		}
		for p, cp := range x.co {
			if !cp.eq(ri(1)) {
				continue
			}
			for q, cq := range x.co {
				if !cq.eq(ri(-1)) {
					continue
				}
				d := s.z.ub(p, q)
				if d >= inf {
					continue
				}
				total := d + x.k.n
				ok := true
				for v, c := range x.co {
					if v == p || v == q {
						continue
					}
					if c.d != 1 {
						ok = false
						break
					}
					var b int64
					if c.n > 0 {
						b = s.z.ub(v, "")
					} else {
						b = s.z.ub("", v)
					}
					if b >= inf {
						ok = false
						break
					}
					if c.n > 0 {
						total += c.n * b
					} else {
						total += (-c.n) * b
					}
				}
				if ok && total < best {
					best = total
				}
			}
		}
	}
	// pairs (c,d) with r == canon(c) - canon(d) + k
	s.z.close()
	names := s.z.names
	canon, sig := s.canonForms()
	for ci := range names {
		// want d with canon(d) == canon(c) - r + const
		t := canon[ci].minus(r)
		for _, di := range sig[sigOf(t)] {
			if di == ci {
				continue
			}
			b := s.z.m[ci][di]
			if b >= inf {
				continue
			}
			// r = canon(c) - canon(d) + k  where k = r.k - canon(c).k + canon(d).k
			k := r.k.sub(canon[ci].k).add(canon[di].k)
			if k.d != 1 {
				continue
			}
			if v := b + k.n; v < best {
				best = v
			}
		}
	}
	return best
}

func sigOf(e linexp) string {
	var parts []string
	for _, v := range e.vars() {
		parts = append(parts, v+"*"+e.co[v].String())
	}
	return strings.Join(parts, ",")
}

func (s *nst) lb(e linexp) int64 {
	u := s.ub(lconst(0).minus(e))
	if u >= inf {
		return -inf
	}
	return -u
}

// assumeLe: e <= 0.
func (s *nst) assumeLe(e linexp) {
	s.assumeLe0(e)
	s.tighten()
}

// sumGhost: x <= y - k where y is (by an equality) a difference A - B + k2, e.g. the length of Input[B:]: remember
// the sum x + B as a ghost bounded by A, so that a later `cursor = B + x` is bounded too.
func (s *nst) sumGhost(x, y string, k int64) {
	if !strings.HasPrefix(x, "v:") || y == "" || !(strings.HasPrefix(y, "len:") || strings.HasPrefix(y, "v:")) {
		return
	}
	r := s.k.reduce(lvar(y))
	if a, b, k2, ok2 := diffForm(r); ok2 && a != "" && b != "" && a != x && b != x {
		// named after the frame of x so that it is dropped when that frame returns
		g := "g:" + strings.TrimPrefix(x, "v:") + ":sum:" + b
		if _, has := s.z.lookup(g); has {
			return
		}
		s.assign(g, lvar(x).plus(lvar(b)), nil)
		s.z.add(g, a, k2-k)
	}
}

func (s *nst) assumeLe0(e linexp) {
	if e.isConst() {
		if e.k.n > 0 {
			s.z.bottom = true
		}
		return
	}
	// direct two-variable form
	if x, y, k, ok := diffForm(e); ok {
		s.z.add(x, y, -k)
		// x <= y - k where y is (by an equality) a difference A - B + k2, e.g. the length of Input[B:]:
		// remember the sum x + B as a ghost bounded by A, so that a later `cursor = B + x` is bounded too
		s.sumGhost(x, y, k)
		// a bound on a variable that the equalities express through several others (the length of Input[end:] while
		// end is tied to the rune cursor) must reach those others too: fall through to the reduced form
		if y == "" || x == "" {
			if rr := s.k.reduce(e); len(rr.co) >= 2 {
				goto reduced
			}
		}
		return
	}
reduced:
	r := s.k.reduce(e)
	if r.isConst() {
		if r.k.n > 0 {
			s.z.bottom = true
		}
		return
	}
	if x, y, k, ok := diffForm(r); ok {
		s.z.add(x, y, -k)
		return
	}
	// look for zone variables c,d with r == canon(c) - canon(d) + k
	s.z.close()
	names := append([]string{}, s.z.names...)
	canon, sig := s.canonForms()
	for ci := range names {
		t := canon[ci].minus(r)
		for _, di := range sig[sigOf(t)] {
			if di == ci {
				continue
			}
			k := r.k.sub(canon[ci].k).add(canon[di].k)
			if k.d != 1 {
				continue
			}
			var x, y string
			if ci > 0 {
				x = names[ci]
			}
			if di > 0 {
				y = names[di]
			}
			s.z.add(x, y, -k.n)
		}
	}
}

// diffForm: e == x - y + k with unit coefficients (x or y may be the zero variable "").
func diffForm(e linexp) (x, y string, k int64, ok bool) {
	if e.k.d != 1 {
		return
	}
	k = e.k.n
	switch len(e.co) {
	case 1:
		for v, c := range e.co {
			if c.eq(ri(1)) {
				return v, "", k, true
			}
			if c.eq(ri(-1)) {
				return "", v, k, true
			}
		}
	case 2:
		for v, c := range e.co {
			if c.eq(ri(1)) {
				x = v
			} else if c.eq(ri(-1)) {
				y = v
			} else {
				return "", "", 0, false
			}
		}
		if x != "" && y != "" {
			return x, y, k, true
		}
	}
	return "", "", 0, false
}

func (s *nst) assumeEq(e linexp) {
	s.k.addEq(e)
	s.assumeLe(e)
	s.assumeLe(lconst(0).minus(e))
	s.tighten()
}

// tighten: an equality v = x - y + k (three variables with unit coefficients) turns the interval of v into a
// difference bound between x and y, and a bound on x - y into an interval of v.
func (s *nst) tighten() {
	if s.isBottom() {
		return
	}
	for _, r := range s.k.rows {
		if x, y, k, ok := diffForm(r); ok && len(r.co) == 2 {
			// x - y + k == 0
			if -k < s.z.ub(x, y) {
				s.z.add(x, y, -k)
			}
			if k < s.z.ub(y, x) {
				s.z.add(y, x, k)
			}
			continue
		}
		if len(r.co) != 3 || r.k.d != 1 {
			continue
		}
		unit := true
		for _, c := range r.co {
			if !c.eq(ri(1)) && !c.eq(ri(-1)) {
				unit = false
			}
		}
		if !unit {
			continue
		}
		vs := r.vars()
		for _, v := range vs {
			// r: cv*v + rest + k = 0  =>  v = -(rest + k)/cv
			cv := r.co[v]
			var pos, neg string
			okForm := true
			for _, o := range vs {
				if o == v {
					continue
				}
				co := r.co[o].mul(cv.neg()) // coefficient of o in the expression of v
				if co.eq(ri(1)) {
					if pos != "" {
						okForm = false
					}
					pos = o
				} else {
					if neg != "" {
						okForm = false
					}
					neg = o
				}
			}
			if !okForm || pos == "" || neg == "" {
				continue
			}
			k := r.k.mul(cv.neg()).n // v = pos - neg + k
			// from v's interval
			if u := s.z.ub(v, ""); u < inf {
				if u-k < s.z.ub(pos, neg) {
					s.z.add(pos, neg, u-k)
				}
			}
			if l := s.z.ub("", v); l < inf { // -v <= l  =>  v >= -l  =>  pos - neg >= -l - k => neg - pos <= l + k
				if l+k < s.z.ub(neg, pos) {
					s.z.add(neg, pos, l+k)
				}
			}
			// and back
			if d := s.z.ub(pos, neg); d < inf && d+k < s.z.ub(v, "") {
				s.z.add(v, "", d+k)
			}
			if d := s.z.ub(neg, pos); d < inf && d-k < s.z.ub("", v) {
				s.z.add("", v, d-k)
			}
		}
	}
}

func (s *nst) forget(v string) {
	s.k.forget(v)
	s.z.forget(v)
}

func (s *nst) drop(v string) {
	s.k.forget(v)
	s.z.remove(v)
}

// assign x := e.
func (s *nst) assign(x string, e linexp, important []string) {
	if s.isBottom() {
		return
	}
	// exact zone cases
	if y, k, ok := singleVar(e); ok {
		if y == x {
			// x := x + k : shift
			s.k.assign(x, e)
			if i, has := s.z.lookup(x); has && k != 0 {
				s.z.close()
				for j := range s.z.m {
					if j == i {
						continue
					}
					if s.z.m[i][j] < inf {
						s.z.m[i][j] += k
					}
					if s.z.m[j][i] < inf {
						s.z.m[j][i] -= k
					}
				}
			}
			return
		}
		s.k.assign(x, e)
		s.z.forget(x)
		if y == "" {
			s.z.add(x, "", k)
			s.z.add("", x, -k)
		} else {
			s.z.add(x, y, k)
			s.z.add(y, x, -k)
		}
		return
	}
	// general: compute bounds of e and of e - y for the variables it mentions and the important ones, in the pre-state
	type bd struct {
		y      string
		ub, lb int64
	}
	var bds []bd
	cand := map[string]bool{"": true}
	for v := range e.co {
		if v != x {
			cand[v] = true
		}
	}
	for _, v := range important {
		if v != x {
			cand[v] = true
		}
	}
	for y := range cand {
		d := e
		if y != "" {
			d = e.minus(lvar(y))
		}
		bds = append(bds, bd{y, s.ub(d), s.lb(d)})
	}
	s.k.assign(x, e)
	s.z.forget(x)
	for _, b := range bds {
		if b.ub < inf {
			s.z.add(x, b.y, b.ub)
		}
		if b.lb > -inf {
			s.z.add(b.y, x, -b.lb)
		}
	}
	// x <= y + ub where y is a remainder length: keep the sum with the cursor bounded (a count computed as
	// len(rest) - len(trimmed) is at most len(rest))
	if strings.HasPrefix(x, "v:") && !strings.HasPrefix(x, "g:") {
		for _, b := range bds {
			if b.ub < inf && (strings.HasPrefix(b.y, "len:") || strings.HasPrefix(b.y, "v:")) && b.y != x {
				s.sumGhost(x, b.y, -b.ub)
			}
		}
	}
}

func singleVar(e linexp) (string, int64, bool) {
	if e.k.d != 1 {
		return "", 0, false
	}
	switch len(e.co) {
	case 0:
		return "", e.k.n, true
	case 1:
		for v, c := range e.co {
			if c.eq(ri(1)) {
				return v, e.k.n, true
			}
		}
	}
	return "", 0, false
}

var saturatePairs [][2]string

func joinNst(a, b *nst, widen bool) *nst {
	if a == nil || a.isBottom() {
		return b.clone()
	}
	if b == nil || b.isBottom() {
		return a.clone()
	}
	// before joining, make the bounds between the important variables (cursor cells, input length, entry ghost)
	// explicit in each zone: they may only be derivable through the equalities, which the join treats separately
	for _, s := range []*nst{a, b} {
		s.tighten()
		for _, pr := range saturatePairs {
			x, y := pr[0], pr[1]
			if x != "" {
				if _, ok := s.z.lookup(x); !ok {
					continue
				}
			}
			if y != "" {
				if _, ok := s.z.lookup(y); !ok {
					continue
				}
			}
			for dir := 0; dir < 2; dir++ {
				var ex linexp
				switch {
				case x == "":
					ex = lconst(0).minus(lvar(y))
				case y == "":
					ex = lvar(x)
				default:
					ex = lvar(x).minus(lvar(y))
				}
				if u := s.ub(ex); u < s.z.ub(x, y) {
					s.z.add(x, y, u)
				}
				x, y = y, x
			}
		}
	}
	// make Karr-implied equalities between zone variables visible to the zone before joining:
	// for every row with a two-variable unit form add the difference constraint
	for _, s := range []*nst{a, b} {
		for _, r := range s.k.rows {
			if x, y, k, ok := diffForm(r); ok {
				s.z.add(x, y, -k)
				s.z.add(y, x, k)
			}
		}
	}
	return &nst{z: joinZone(a.z, b.z, widen), k: joinKarr(a.k, b.k)}
}

func (s *nst) leq(o *nst) bool {
	if s.isBottom() {
		return true
	}
	if o.isBottom() {
		return false
	}
	if !s.z.leq(o.z) {
		return false
	}
	for _, r := range o.k.rows {
		x := s.k.reduce(r)
		if !x.isConst() || !x.k.zero() {
			return false
		}
	}
	return true
}

// ---------------------------------------------------------------------------

type oblig struct {
	pos    token.Pos
	fn     string
	what   string
	need   string
	ok     bool
	seen   int
	detail string
}

type absEngine struct {
	p         *Program
	pkg       *ssa.Package
	cellT     *types.Named // the receiver struct whose int fields are cells
	obl       map[string]*oblig
	order     []string
	depth     int
	maxDepth  int
	important []string
	// hooks
	onCall       func(e *absEngine, fr *frame, st *nst, call *ssa.Call) // observe calls (obligations of clients)
	onReturn     func(e *absEngine, fr *frame, st *nst, ret *ssa.Return)
	onStoreCell  func(e *absEngine, fr *frame, st *nst, cell string)
	loopCheck    bool
	steps        int
	dbgState     *nst
	inlineMemo   map[string]*nst
	apLens       bool                 // lengths of lists in fields / captured variables are named by access path
	apField      map[string]fieldRef  // access-path length symbol -> the field it reads
	memoCases    map[string][]retCase // per memo key: the return states by nil-ness of the error result
	retCases     map[string][]retCase // per frame ctx + call: the cases of the last analysis of that call
	structFields map[string][]string  // struct type name -> tracked int field paths
}

type frame struct {
	fn       *ssa.Function
	ctx      string
	rec      bool // recording obligations
	rets     []*retState
	retNames map[string]bool // names of the integer values the function may return (lazily computed)
}

// retCase: one return state of an inlined callee, with what is known of its last (error) result: 1 nil, 0 non-nil, -1 unknown.
type retCase struct {
	errNil int8
	st     *nst
}

type retState struct {
	st   *nst
	vals []ssa.Value
	ret  *ssa.Return
}

func newAbsEngine(p *Program, pkgRel string, cell *types.Named) *absEngine {
	return &absEngine{p: p, pkg: p.SPkgs[pkgRel], cellT: cell, obl: map[string]*oblig{}, maxDepth: 6, structFields: map[string][]string{}}
}

func (s *nst) dump() string {
	s.z.close()
	var parts []string
	flt := os.Getenv("GQLVET_ABSFILTER")
	for i, a := range s.z.names {
		for j, b := range s.z.names {
			if i != j && s.z.m[i][j] < inf {
				c := fmt.Sprintf("%s-%s<=%d", a, b, s.z.m[i][j])
				if flt == "" || strings.Contains(c, flt) {
					parts = append(parts, c)
				}
			}
		}
	}
	if flt != "" {
		sort.Strings(parts)
		return "ZONE " + strings.Join(parts, " ; ")
	}
	sort.Strings(parts)
	var rows []string
	for _, r := range s.k.rows {
		rows = append(rows, r.String()+"=0")
	}
	return "ZONE " + strings.Join(parts, " ; ") + "\nKARR " + strings.Join(rows, " ; ")
}

var absDebug = os.Getenv("GQLVET_ABSDBG")
var absAt = os.Getenv("GQLVET_ABSAT")

func (e *absEngine) record(fr *frame, pos token.Pos, what, need string, ok bool, detail string) {
	if !fr.rec {
		return
	}
	if absDebug != "" && strings.Contains(e.p.PosCol(pos)+" "+what, absDebug) && e.dbgState != nil {
		fmt.Fprintf(os.Stderr, "ABSDBG %s %s ok=%v %s ctx=%s\n%s\n", e.p.PosCol(pos), what, ok, detail, fr.ctx, e.dbgState.dump())
	}
	key := e.p.PosCol(pos) + " " + what
	o := e.obl[key]
	if o == nil {
		o = &oblig{pos: pos, fn: e.p.FuncName(fr.fn), what: what, need: need, ok: true}
		e.obl[key] = o
		e.order = append(e.order, key)
	}
	o.seen++
	if !ok && o.ok {
		o.ok = false
		o.detail = detail + " [context " + fr.ctx + "]"
	}
}

func (fr *frame) v(name string) string { return "v:" + fr.ctx + ":" + name }

func isIntType(t types.Type) bool {
	b, ok := t.Underlying().(*types.Basic)
	return ok && (b.Kind() == types.Int || b.Kind() == types.Int64 || b.Kind() == types.Int32 || b.Kind() == types.UntypedInt)
}

func isBoolType(t types.Type) bool {
	b, ok := t.Underlying().(*types.Basic)
	return ok && (b.Kind() == types.Bool || b.Kind() == types.UntypedBool)
}

// cellOf: addr is &recv.field for an int field of the cell struct -> "c:field".
func (e *absEngine) cellOf(addr ssa.Value) (string, bool) {
	fa, ok := addr.(*ssa.FieldAddr)
	if !ok {
		return "", false
	}
	n, f, _, _ := fieldOf(fa)
	if n == nil || e.cellT == nil || !sameNamed(n, e.cellT) {
		return "", false
	}
	if !isIntType(fa.Type().(*types.Pointer).Elem()) {
		return "", false
	}
	return "c:" + f, true
}

// localCell: addr is a field path (ints only) inside a local struct allocation, or a local int cell.
func (e *absEngine) localCell(fr *frame, addr ssa.Value) (string, bool) {
	var path []string
	v := addr
	for i := 0; i < 6; i++ {
		switch x := v.(type) {
		case *ssa.FieldAddr:
			_, f, b, _ := fieldOf(x)
			path = append([]string{f}, path...)
			v = b
			continue
		case *ssa.Alloc:
			if !isIntType(addr.Type().(*types.Pointer).Elem()) {
				return "", false
			}
			return "l:" + fr.ctx + ":" + x.Name() + "." + strings.Join(path, "."), true
		}
		break
	}
	return "", false
}

// lin: the linear expression of an int/bool value, if it has one.
func (e *absEngine) lin(fr *frame, v ssa.Value) (linexp, bool) {
	switch x := v.(type) {
	case *ssa.Const:
		if x.Value == nil {
			return linexp{}, false
		}
		switch x.Value.Kind() {
		case constant.Int:
			if i, ok := constant.Int64Val(x.Value); ok {
				return lconst(i), true
			}
		case constant.Bool:
			if constant.BoolVal(x.Value) {
				return lconst(1), true
			}
			return lconst(0), true
		}
		return linexp{}, false
	case *ssa.Convert:
		if isIntType(x.Type()) && isIntType(x.X.Type()) {
			return e.lin(fr, x.X)
		}
		return linexp{}, false
	case *ssa.ChangeType:
		return e.lin(fr, x.X)
	}
	if isIntType(v.Type()) || isBoolType(v.Type()) {
		return lvar(fr.v(v.Name())), true
	}
	return linexp{}, false
}

// lenLin: the length of a string/slice value.
func (e *absEngine) lenLin(fr *frame, st *nst, v ssa.Value) linexp {
	v = stripChange(v)
	if s, ok := constString(v); ok {
		return lconst(int64(len(s)))
	}
	var name string
	switch x := v.(type) {
	case *ssa.UnOp:
		if x.Op == token.MUL {
			if fa, ok := x.X.(*ssa.FieldAddr); ok {
				n, f, _, _ := fieldOf(fa)
				if n != nil && n.Obj().Name() == "Source" && f == "Input" {
					name = "N"
					break
				}
			}
			if ia, ok := x.X.(*ssa.IndexAddr); ok && !e.apLens {
				name = "len:" + fr.ctx + ":elem(" + ia.X.Name() + "," + ia.Index.Name() + ")"
				break
			}
		}
		name = "len:" + fr.ctx + ":" + v.Name()
	default:
		name = "len:" + fr.ctx + ":" + v.Name()
	}
	if _, ok := st.z.lookup(name); !ok {
		st.z.add("", name, 0) // lengths are non-negative
	}
	return lvar(name)
}

// refine applies cond == truth.
func (e *absEngine) refine(fr *frame, st *nst, cond ssa.Value, truth bool) {
	c := normCond(Cond{V: cond, True: truth})
	switch x := c.V.(type) {
	case *ssa.BinOp:
		lx, ok1 := e.linOrLen(fr, st, x.X)
		ly, ok2 := e.linOrLen(fr, st, x.Y)
		if !ok1 || !ok2 {
			return
		}
		op := x.Op
		if !c.True {
			switch op {
			case token.LSS:
				op = token.GEQ
			case token.LEQ:
				op = token.GTR
			case token.GTR:
				op = token.LEQ
			case token.GEQ:
				op = token.LSS
			case token.EQL:
				op = token.NEQ
			case token.NEQ:
				op = token.EQL
			}
		}
		d := lx.minus(ly)
		switch op {
		case token.LSS:
			st.assumeLe(d.addK(1))
		case token.LEQ:
			st.assumeLe(d)
		case token.GTR:
			st.assumeLe(lconst(0).minus(d).addK(1))
		case token.GEQ:
			st.assumeLe(lconst(0).minus(d))
		case token.EQL:
			st.assumeEq(d)
		case token.NEQ:
			// tighten a bound that equals the excluded value
			if st.ub(d) == 0 {
				st.assumeLe(d.addK(1))
			} else if st.lb(d) == 0 {
				st.assumeLe(lconst(0).minus(d).addK(1))
			}
		}
	case *ssa.Call:
		// strings.HasPrefix(s, p) / HasSuffix: when true, len(s) >= len(p)
		if nm := calleeName(x); c.True && len(x.Call.Args) == 2 && (nm == "strings.HasPrefix" || nm == "strings.HasSuffix" || nm == "bytes.HasPrefix" || nm == "bytes.HasSuffix") {
			ls, lp := e.lenLin(fr, st, x.Call.Args[0]), e.lenLin(fr, st, x.Call.Args[1])
			st.assumeLe(lp.minus(ls))
		}
		if l, ok := e.lin(fr, c.V); ok {
			if c.True {
				st.assumeEq(l.addK(-1))
			} else {
				st.assumeEq(l)
			}
		}
	default:
		if isBoolType(c.V.Type()) {
			if l, ok := e.lin(fr, c.V); ok {
				if c.True {
					st.assumeEq(l.addK(-1))
				} else {
					st.assumeEq(l)
				}
			}
		}
	}
}

// linOrLen: ints, and `len(x)` calls are ints already; nothing else.
func (e *absEngine) linOrLen(fr *frame, st *nst, v ssa.Value) (linexp, bool) {
	if !isIntType(v.Type()) {
		return linexp{}, false
	}
	return e.lin(fr, v)
}

func (e *absEngine) imp() []string { return e.important }

// step executes one instruction.
func (e *absEngine) step(fr *frame, st *nst, in ssa.Instruction) {
	e.steps++
	e.dbgState = st
	if absAt != "" && fr.rec && in.Pos().IsValid() && strings.Contains(e.p.PosCol(in.Pos()), absAt) {
		fmt.Fprintf(os.Stderr, "ABSAT %s %T %s ctx=%s\n%s\n", e.p.PosCol(in.Pos()), in, in.String(), fr.ctx, st.dump())
	}
	switch x := in.(type) {
	case *ssa.UnOp:
		if x.Op == token.MUL {
			if c, ok := e.cellOf(x.X); ok {
				st.assign(fr.v(x.Name()), lvar(c), nil)
				return
			}
			if c, ok := e.localCell(fr, x.X); ok {
				st.assign(fr.v(x.Name()), lvar(c), nil)
				return
			}
			// a list read from a field / captured variable / cell: the value read has, from now on, the length the
			// place has now (the value's own symbol is never invalidated; the place's is, by stores and calls)
			if e.apLens {
				isList := false
				switch t := x.Type().Underlying().(type) {
				case *types.Slice:
					isList = true
				case *types.Basic:
					isList = t.Info()&types.IsString != 0
				}
				if isList {
					if ap := e.apName(fr, x); ap != "" {
						if _, ok := st.z.lookup(ap); !ok {
							st.z.add("", ap, 0)
						}
						vn := "len:" + fr.ctx + ":" + x.Name()
						st.assign(vn, lvar(ap), nil)
						st.z.add("", vn, 0)
						return
					}
				}
			}
		}
		if x.Op == token.SUB && isIntType(x.Type()) {
			if l, ok := e.lin(fr, x.X); ok {
				st.assign(fr.v(x.Name()), lconst(0).minus(l), e.imp())
				return
			}
		}
		if isIntType(x.Type()) || isBoolType(x.Type()) {
			st.forget(fr.v(x.Name()))
		}
	case *ssa.Store:
		if c, ok := e.cellOf(x.Addr); ok {
			if l, ok := e.lin(fr, x.Val); ok {
				st.assign(c, l, e.imp())
			} else {
				st.forget(c)
			}
			if e.onStoreCell != nil {
				e.onStoreCell(e, fr, st, c)
			}
			return
		}
		if c, ok := e.localCell(fr, x.Addr); ok {
			if l, ok := e.lin(fr, x.Val); ok {
				st.assign(c, l, e.imp())
			} else {
				st.forget(c)
			}
			return
		}
		// a store of a whole struct value into a local allocation: copy the tracked fields
		if a, ok := x.Addr.(*ssa.Alloc); ok {
			e.copyStruct(fr, st, "l:"+fr.ctx+":"+a.Name(), e.structKey(fr, x.Val), x.Val.Type())
		}
		if e.apLens {
			e.killApLens(fr, st, x)
			// a list assigned to a captured variable or a local cell: its length symbol takes the new length
			var nm string
			switch ad := x.Addr.(type) {
			case *ssa.FreeVar:
				nm = "len:" + fr.ctx + ":ap:fv:" + ad.Name()
			case *ssa.Alloc:
				nm = "len:" + fr.ctx + ":ap:cell:" + ad.Name()
			}
			if nm != "" {
				switch x.Val.Type().Underlying().(type) {
				case *types.Slice:
					st.assign(nm, e.lenLin(fr, st, x.Val), nil)
					st.z.add("", nm, 0)
				default:
					if b, ok := x.Val.Type().Underlying().(*types.Basic); ok && b.Info()&types.IsString != 0 {
						st.assign(nm, e.lenLin(fr, st, x.Val), nil)
						st.z.add("", nm, 0)
					}
				}
			}
		}
		// element stores invalidate element length symbols of that base
		if ia, ok := x.Addr.(*ssa.IndexAddr); ok {
			prefix := "len:" + fr.ctx + ":elem(" + ia.X.Name() + ","
			for _, nm := range append([]string{}, st.z.names...) {
				if strings.HasPrefix(nm, prefix) {
					st.forget(nm)
				}
			}
		}
	case *ssa.BinOp:
		if !isIntType(x.Type()) {
			return
		}
		lx, ok1 := e.lin(fr, x.X)
		ly, ok2 := e.lin(fr, x.Y)
		name := fr.v(x.Name())
		if ok1 && ok2 {
			switch x.Op {
			case token.ADD:
				st.assign(name, lx.plus(ly), e.imp())
				return
			case token.SUB:
				st.assign(name, lx.minus(ly), e.imp())
				return
			case token.MUL:
				if lx.isConst() && lx.k.d == 1 {
					st.assign(name, lconst(0).addScaled(ly, lx.k), e.imp())
					return
				}
				if ly.isConst() && ly.k.d == 1 {
					st.assign(name, lconst(0).addScaled(lx, ly.k), e.imp())
					return
				}
			}
		}
		st.forget(name)
	case *ssa.Slice:
		e.sliceOblig(fr, st, x)
	case *ssa.MakeSlice:
		// make([]T, n): length n
		if l, ok := e.lin(fr, x.Len); ok {
			nm := "len:" + fr.ctx + ":" + x.Name()
			st.assign(nm, l, nil)
			st.z.add("", nm, 0)
		}
	case *ssa.IndexAddr:
		e.indexOblig(fr, st, in, x.X, x.Index)
	case *ssa.Index:
		e.indexOblig(fr, st, in, x.X, x.Index)
	case *ssa.Lookup:
		if b, ok := x.X.Type().Underlying().(*types.Basic); ok && b.Info()&types.IsString != 0 {
			e.indexOblig(fr, st, in, x.X, x.Index)
		}
	case *ssa.Call:
		e.call(fr, st, x)
		if e.apLens {
			e.killApLens(fr, st, x)
		}
	case *ssa.Extract:
		e.extract(fr, st, x)
	case *ssa.Next:
	case *ssa.Return:
		if e.onReturn != nil {
			e.onReturn(e, fr, st, x)
		}
		fr.rets = append(fr.rets, &retState{st.clone(), returnValues(x), x})
	case *ssa.Phi:
		// assigned on the incoming edge
	default:
		if v, ok := in.(ssa.Value); ok && (isIntType(v.Type()) || isBoolType(v.Type())) {
			st.forget(fr.v(v.Name()))
		}
	}
}

// structKey: where the tracked fields of a struct VALUE live.
func (e *absEngine) structKey(fr *frame, v ssa.Value) string {
	switch x := v.(type) {
	case *ssa.UnOp:
		if x.Op == token.MUL {
			if a, ok := x.X.(*ssa.Alloc); ok {
				return "l:" + fr.ctx + ":" + a.Name()
			}
		}
	}
	return "sv:" + fr.ctx + ":" + v.Name()
}

func (e *absEngine) trackedFields(t types.Type) []string {
	n := namedOf(t)
	if n == nil {
		return nil
	}
	return e.structFields[n.Obj().Name()]
}

func (e *absEngine) copyStruct(fr *frame, st *nst, dst, src string, t types.Type) {
	for _, f := range e.trackedFields(t) {
		if _, ok := st.z.lookup(src + "." + f); ok || st.k.vars()[src+"."+f] {
			st.assign(dst+"."+f, lvar(src+"."+f), nil)
		} else {
			st.forget(dst + "." + f)
		}
	}
}

func (e *absEngine) indexOblig(fr *frame, st *nst, in ssa.Instruction, x, idx ssa.Value) {
	if _, isMap := x.Type().Underlying().(*types.Map); isMap {
		return
	}
	li, ok := e.lin(fr, idx)
	if !ok {
		return
	}
	var ln linexp
	// arrays: constant length
	t := x.Type().Underlying()
	if pt, ok := t.(*types.Pointer); ok {
		t = pt.Elem().Underlying()
	}
	if at, ok := t.(*types.Array); ok {
		ln = lconst(at.Len())
	} else {
		ln = e.lenLin(fr, st, x)
	}
	lo := st.lb(li)
	hi := st.ub(li.minus(ln))
	okB := lo >= 0 && hi <= -1
	e.record(fr, in.Pos(), "index "+describeVal(x)+"["+describeVal(idx)+"]", "0 <= index < len", okB,
		fmt.Sprintf("index lower bound %s, (index - len) upper bound %s", bstr(lo), bstr(hi)))
}

func (e *absEngine) sliceOblig(fr *frame, st *nst, x *ssa.Slice) {
	base := x.X
	ln := linexp{}
	t := base.Type().Underlying()
	if pt, ok := t.(*types.Pointer); ok {
		if at, ok := pt.Elem().Underlying().(*types.Array); ok {
			ln = lconst(at.Len())
		}
	}
	if ln.co == nil {
		ln = e.lenLin(fr, st, base)
	}
	lo, hi := lconst(0), ln
	okLin := true
	if x.Low != nil {
		l, ok := e.lin(fr, x.Low)
		if !ok {
			okLin = false
		}
		lo = l
	}
	if x.High != nil {
		h, ok := e.lin(fr, x.High)
		if !ok {
			okLin = false
		}
		hi = h
	}
	name := "len:" + fr.ctx + ":" + x.Name()
	if !okLin {
		st.forget(name)
		st.z.add("", name, 0)
		return
	}
	a := st.lb(lo)
	b := st.ub(lo.minus(hi))
	c := st.ub(hi.minus(ln))
	okB := a >= 0 && b <= 0 && c <= 0
	e.record(fr, x.Pos(), "slice "+describeVal(base)+"["+describeOpt(x.Low)+":"+describeOpt(x.High)+"]", "0 <= low <= high <= len", okB,
		fmt.Sprintf("low >= %s, low-high <= %s, high-len <= %s", bstr(a), bstr(b), bstr(c)))
	st.assign(name, hi.minus(lo), e.imp())
	st.z.add("", name, 0)
}

func bstr(b int64) string {
	if b >= inf {
		return "+inf"
	}
	if b <= -inf {
		return "-inf"
	}
	return fmt.Sprint(b)
}

func describeOpt(v ssa.Value) string {
	if v == nil {
		return ""
	}
	return describeVal(v)
}

func describeVal(v ssa.Value) string {
	switch x := v.(type) {
	case *ssa.Const:
		if x.Value != nil {
			return x.Value.String()
		}
	case *ssa.UnOp:
		if x.Op == token.MUL {
			if fa, ok := x.X.(*ssa.FieldAddr); ok {
				_, f, _, _ := fieldOf(fa)
				return "." + f
			}
		}
	case *ssa.BinOp:
		return describeVal(x.X) + x.Op.String() + describeVal(x.Y)
	case *ssa.Parameter:
		return x.Name()
	case *ssa.Phi:
		if x.Comment != "" {
			return x.Comment
		}
	}
	return v.Name()
}

func (e *absEngine) call(fr *frame, st *nst, call *ssa.Call) {
	if e.onCall != nil {
		e.onCall(e, fr, st, call)
	}
	name := fr.v(call.Name())
	if b, ok := call.Call.Value.(*ssa.Builtin); ok {
		if b.Name() == "len" {
			st.assign(name, e.lenLin(fr, st, call.Call.Args[0]), e.imp())
			return
		}
		if b.Name() == "append" && e.apLens && len(call.Call.Args) == 2 {
			ln := "len:" + fr.ctx + ":" + call.Name()
			st.assign(ln, e.lenLin(fr, st, call.Call.Args[0]).plus(e.lenLin(fr, st, call.Call.Args[1])), nil)
			st.z.add("", ln, 0)
			return
		}
		if isIntType(call.Type()) {
			st.forget(name)
		}
		return
	}
	g := call.Call.StaticCallee()
	if g != nil && g.Pkg == e.pkg && len(g.Blocks) > 0 && e.depth < e.maxDepth {
		e.inline(fr, st, call, g)
		return
	}
	// library contracts
	switch calleeName(call) {
	case "strings.Split":
		ln := "len:" + fr.ctx + ":" + call.Name()
		st.forget(ln)
		st.z.add("", ln, -1) // at least one element for a non-empty separator
		return
	case "strings.IndexByte", "strings.IndexRune", "strings.IndexFunc", "strings.IndexAny", "strings.LastIndexByte", "strings.LastIndexFunc", "strings.LastIndexAny",
		"bytes.IndexByte", "bytes.IndexRune", "bytes.IndexFunc", "bytes.IndexAny", "slices.IndexFunc", "slices.Index":
		// -1 <= r <= len(s) - 1
		st.forget(name)
		st.z.add("", name, 1)
		st.assumeLe(lvar(name).minus(e.lenLin(fr, st, call.Call.Args[0])).addK(1))
		return
	case "strings.Index", "strings.LastIndex", "bytes.Index", "bytes.LastIndex":
		// -1 <= r <= len(s)
		st.forget(name)
		st.z.add("", name, 1)
		st.assumeLe(lvar(name).minus(e.lenLin(fr, st, call.Call.Args[0])))
		return
	case "strings.TrimSpace", "strings.TrimLeft", "strings.TrimRight", "strings.Trim", "strings.TrimPrefix", "strings.TrimSuffix":
		ln := "len:" + fr.ctx + ":" + call.Name()
		st.forget(ln)
		st.z.add("", ln, 0)
		st.assumeLe(lvar(ln).minus(e.lenLin(fr, st, call.Call.Args[0])))
		return
	case "unicode/utf8.RuneCountInString":
		st.forget(name)
		st.z.add("", name, 0)
		st.assumeLe(lvar(name).minus(e.lenLin(fr, st, call.Call.Args[0])))
		return
	}
	if isIntType(call.Type()) || isBoolType(call.Type()) {
		st.forget(name)
		if isBoolType(call.Type()) {
			st.z.add(name, "", 1)
			st.z.add("", name, 0)
		}
	}
	if e.apLens {
		if _, isSlice := call.Type().Underlying().(*types.Slice); isSlice {
			e.applyLenBounds(fr, st, call, 0, call)
		}
	}
}

func (e *absEngine) extract(fr *frame, st *nst, x *ssa.Extract) {
	name := fr.v(x.Name())
	if call, ok := x.Tuple.(*ssa.Call); ok {
		if calleeName(call) == "unicode/utf8.DecodeRuneInString" && x.Index == 1 {
			ln := e.lenLin(fr, st, call.Call.Args[0])
			st.forget(name)
			st.z.add("", name, 0)
			st.assumeLe(lvar(name).minus(ln))
			atLeastOne := st.lb(ln) >= 1
			if atLeastOne {
				st.z.add("", name, -1)
			}
			// s[lo:] decoded: the position after the rune, lo + w, is a ghost that survives the callee so that
			// `cursor += w` in a caller can be bounded by the length of the underlying string
			if sl, ok := stripChange(call.Call.Args[0]).(*ssa.Slice); ok && sl.High == nil && sl.Low != nil {
				if lo, ok := e.lin(fr, sl.Low); ok {
					g := "gd:" + e.p.PosCol(call.Pos())
					st.assign(g, lo.plus(lvar(name)), append(e.imp(), e.lenLin(fr, st, sl.X).vars()...))
				}
			}
			return
		}
		if g := call.Call.StaticCallee(); g != nil && g.Pkg == e.pkg && len(g.Blocks) > 0 {
			// bound by inline(): "v:ctx:call#i"
			src := fr.v(call.Name()) + "#" + fmt.Sprint(x.Index)
			if isIntType(x.Type()) || isBoolType(x.Type()) {
				st.assign(name, lvar(src), nil)
			}
			e.copyStruct(fr, st, "sv:"+fr.ctx+":"+x.Name(), "sv:"+fr.ctx+":"+call.Name()+"#"+fmt.Sprint(x.Index), x.Type())
			if e.apLens {
				e.applyLenBounds(fr, st, call, x.Index, x)
			}
			return
		}
	}
	if nx, ok := x.Tuple.(*ssa.Next); ok && x.Index == 1 && isIntType(x.Type()) {
		// range over a string: the key is a valid byte index
		st.forget(name)
		st.z.add("", name, 0)
		if rg, ok := nx.Iter.(*ssa.Range); ok {
			st.assumeLe(lvar(name).minus(e.lenLin(fr, st, rg.X)).addK(1))
		}
		return
	}
	if isIntType(x.Type()) || isBoolType(x.Type()) {
		st.forget(name)
	}
	// a list built by a helper with one append per element of a list it ranges over is no longer than that list
	if call, ok := x.Tuple.(*ssa.Call); ok && e.apLens {
		e.applyLenBounds(fr, st, call, x.Index, x)
	}
}

// applyLenBounds: len(result) <= len(the list the callee ranged over), stated on the caller's access-path symbol.
func (e *absEngine) applyLenBounds(fr *frame, st *nst, call *ssa.Call, ri int, result ssa.Value) {
	g := call.Call.StaticCallee()
	if g == nil || !e.p.inModule(g) {
		return
	}
	for _, lb := range lenBoundsOf(g) {
		if lb.ri != ri || lb.pi < 0 || lb.pi >= len(call.Call.Args) {
			continue
		}
		arg := call.Call.Args[lb.pi]
		rl := e.lenLin(fr, st, result)
		if lb.field == "" {
			st.assumeLe(rl.minus(e.lenLin(fr, st, arg)))
			continue
		}
		ap := "len:" + fr.ctx + ":ap:" + accessPath(arg) + "." + lb.field
		if _, ok := st.z.lookup(ap); !ok {
			st.z.add("", ap, 0)
		}
		if e.apField == nil {
			e.apField = map[string]fieldRef{}
		}
		if _, has := e.apField[ap]; !has {
			// the struct the field belongs to: the callee's parameter type
			pt := g.Params[lb.pi].Type()
			if p2, ok := pt.Underlying().(*types.Pointer); ok {
				pt = p2.Elem()
			}
			if n := namedOf(pt); n != nil {
				e.apField[ap] = fieldRef{n, lb.field}
			}
		}
		st.assumeLe(rl.minus(lvar(ap)))
	}
}

// inline analyses g in the caller's state.
func (e *absEngine) inline(fr *frame, st *nst, call *ssa.Call, g *ssa.Function) {
	e.depth++
	defer func() { e.depth-- }()
	sub := &frame{fn: g, ctx: fr.ctx + "/" + call.Name(), rec: fr.rec}
	entry := st.clone()
	for i, prm := range g.Params {
		if i >= len(call.Call.Args) {
			break
		}
		a := call.Call.Args[i]
		if isIntType(prm.Type()) || isBoolType(prm.Type()) {
			if l, ok := e.lin(fr, a); ok {
				entry.assign(sub.v(prm.Name()), l, nil)
			}
		}
		// string parameters: same length symbol
		if b, ok := prm.Type().Underlying().(*types.Basic); ok && b.Info()&types.IsString != 0 {
			entry.assign("len:"+sub.ctx+":"+prm.Name(), e.lenLin(fr, entry, a), nil)
		}
		if _, ok := prm.Type().Underlying().(*types.Slice); ok {
			entry.assign("len:"+sub.ctx+":"+prm.Name(), e.lenLin(fr, entry, a), nil)
		}
	}
	keep := map[string]bool{}
	for _, cell := range []string{"c:end", "c:endRunes"} {
		if _, ok := entry.z.lookup(cell); ok {
			g := "g:" + fr.ctx + ":at:" + call.Name() + ":" + cell
			entry.assign(g, lvar(cell), nil)
			keep[g] = true
		}
	}
	// memo: during the (non-recording) fixpoint the same call is re-analysed with the same entry state many times
	var memoKey string
	if !fr.rec {
		memoKey = sub.ctx + "|" + entry.fingerprint()
		if out, ok := e.inlineMemo[memoKey]; ok {
			if e.retCases == nil {
				e.retCases = map[string][]retCase{}
			}
			e.retCases[fr.ctx+":"+call.Name()] = e.memoCases[memoKey]
			if out == nil {
				st.z.bottom = true
			} else {
				c := out.clone()
				*st = *c
			}
			return
		}
	}
	e.runFunc(sub, entry)
	// join the return states, binding results
	var out *nst
	var cases []retCase
	for _, r := range sub.rets {
		rs := r.st
		for i, rv := range r.vals {
			dst := fr.v(call.Name())
			if len(r.vals) > 1 {
				dst += "#" + fmt.Sprint(i)
			}
			if isIntType(rv.Type()) || isBoolType(rv.Type()) {
				if l, ok := e.lin(sub, rv); ok {
					rs.assign(dst, l, nil)
				} else {
					rs.forget(dst)
				}
			}
			if b, ok := rv.Type().Underlying().(*types.Basic); ok && b.Info()&types.IsString != 0 {
				ldst := "len:" + fr.ctx + ":" + call.Name()
				if len(r.vals) > 1 {
					ldst += "#" + fmt.Sprint(i)
				}
				rs.assign(ldst, e.lenLin(sub, rs, rv), nil)
			}
			// struct results
			sdst := "sv:" + fr.ctx + ":" + call.Name()
			if len(r.vals) > 1 {
				sdst += "#" + fmt.Sprint(i)
			}
			e.copyStruct(sub, rs, sdst, e.structKey(sub, rv), rv.Type())
		}
		// drop the callee's locals
		pre1, pre2, pre3, pre4 := "v:"+sub.ctx+":", "len:"+sub.ctx+":", "l:"+sub.ctx+":", "sv:"+sub.ctx+":"
		pre5 := "g:" + sub.ctx + ":"
		var dead []string
		seen := map[string]bool{}
		for _, nm := range rs.z.names[1:] {
			seen[nm] = true
		}
		for nm := range rs.k.vars() {
			seen[nm] = true
		}
		for nm := range seen {
			if strings.HasPrefix(nm, pre1) || strings.HasPrefix(nm, pre2) || strings.HasPrefix(nm, pre3) || strings.HasPrefix(nm, pre4) || strings.HasPrefix(nm, pre5) ||
				strings.HasPrefix(nm, "v:"+sub.ctx+"/") || strings.HasPrefix(nm, "len:"+sub.ctx+"/") || strings.HasPrefix(nm, "l:"+sub.ctx+"/") || strings.HasPrefix(nm, "sv:"+sub.ctx+"/") || strings.HasPrefix(nm, "g:"+sub.ctx+"/") {
				dead = append(dead, nm)
			}
		}
		sort.Strings(dead)
		// a result that is the distance of a callee local from a cell (count = i - end, i bounded): keep the sum
		// result + cell as a ghost of the caller, with the local's bounds, before the local goes away
		for i, rv := range r.vals {
			if !isIntType(rv.Type()) {
				continue
			}
			dst := fr.v(call.Name())
			if len(r.vals) > 1 {
				dst += "#" + fmt.Sprint(i)
			}
			for _, x := range dead {
				if !strings.HasPrefix(x, "v:") && !strings.HasPrefix(x, "g:") {
					continue
				}
				for nm := range seen {
					if !strings.HasPrefix(nm, "c:") {
						continue
					}
					d := rs.k.reduce(lvar(dst).minus(lvar(x)).plus(lvar(nm)))
					if !d.isConst() || d.k.d != 1 {
						continue
					}
					g := "g:" + strings.TrimPrefix(dst, "v:") + ":sum:" + nm
					rs.assign(g, lvar(dst).plus(lvar(nm)), nil)
					for _, other := range rs.z.names[1:] {
						if other == g || other == x || seen[other] && containsStr(dead, other) {
							continue
						}
						if u := rs.ub(lvar(x).minus(lvar(other))); u < inf {
							rs.z.add(g, other, u+d.k.n)
						}
						if u := rs.ub(lvar(other).minus(lvar(x))); u < inf {
							rs.z.add(other, g, u-d.k.n)
						}
					}
				}
			}
		}
		for _, nm := range dead {
			rs.drop(nm)
		}
		// remember this return by the nil-ness of its error result, for `if err != nil` right after the call
		if n := len(r.vals); n > 0 {
			last := r.vals[n-1]
			if isPointerLike(last.Type()) || types.IsInterface(last.Type()) {
				en := int8(-1)
				lv := stripConv(last)
				switch x := lv.(type) {
				case *ssa.Const:
					if x.Value == nil {
						en = 1
					}
				case *ssa.MakeInterface, *ssa.Alloc:
					en = 0
				case *ssa.Extract:
					// the error of a constructor of the package that always fails (makeError)
					if c2, ok := x.Tuple.(*ssa.Call); ok {
						if g2 := c2.Call.StaticCallee(); g2 != nil && alwaysErrors(g2) {
							en = 0
						}
					}
				}
				cases = append(cases, retCase{en, rs.clone()})
			}
		}
		if out == nil {
			out = rs
		} else {
			out = joinNst(out, rs, false)
		}
	}
	if e.retCases == nil {
		e.retCases = map[string][]retCase{}
	}
	e.retCases[fr.ctx+":"+call.Name()] = cases
	if memoKey != "" {
		if e.memoCases == nil {
			e.memoCases = map[string][]retCase{}
		}
		e.memoCases[memoKey] = cases
		if e.inlineMemo == nil {
			e.inlineMemo = map[string]*nst{}
		}
		if out == nil {
			e.inlineMemo[memoKey] = nil
		} else {
			e.inlineMemo[memoKey] = out.clone()
		}
	}
	if out == nil {
		// the callee never returns (panics): unreachable afterwards
		st.z.bottom = true
		return
	}
	*st = *out
}

// fingerprint: a canonical rendering of the state (closed zone + equalities).
func (s *nst) fingerprint() string {
	s.z.close()
	names := append([]string{}, s.z.names[1:]...)
	sort.Strings(names)
	var b strings.Builder
	idx := func(n string) int {
		if n == "" {
			return 0
		}
		return s.z.idx[n]
	}
	all := append([]string{""}, names...)
	for _, x := range all {
		for _, y := range all {
			if x == y {
				continue
			}
			if v := s.z.m[idx(x)][idx(y)]; v < inf {
				fmt.Fprintf(&b, "%s-%s<=%d;", x, y, v)
			}
		}
	}
	b.WriteString("|")
	var rows []string
	for _, r := range s.k.rows {
		rows = append(rows, r.String())
	}
	sort.Strings(rows)
	b.WriteString(strings.Join(rows, ";"))
	return b.String()
}

// runFunc computes the fixpoint of fr.fn from the entry state and, when recording, replays every block once on
// the stable states so that obligations are evaluated on the final invariants.
func (e *absEngine) runFunc(fr *frame, entry *nst) {
	fn := fr.fn
	rec := fr.rec
	fr.rec = false
	in := map[*ssa.BasicBlock]*nst{fn.Blocks[0]: entry}
	visits := map[*ssa.BasicBlock]int{}
	headers, bodies := loopsOf(fn)
	isHeader := map[*ssa.BasicBlock]bool{}
	for _, h := range headers {
		isHeader[h] = true
	}
	li := liveOf(fn)
	edgeOut := func(b *ssa.BasicBlock, st *nst, succIdx int) *nst {
		o := st.clone()
		if ifi, ok := b.Instrs[len(b.Instrs)-1].(*ssa.If); ok && len(b.Succs) == 2 {
			if o2, ok := e.errCaseSplit(fr, b, ifi, succIdx == 0); ok {
				if o2 == nil {
					return nil
				}
				o = o2
			}
			e.refine(fr, o, ifi.Cond, succIdx == 0)
		}
		if o.isBottom() {
			return nil
		}
		s := b.Succs[succIdx]
		// phis: parallel assignment
		pi := -1
		for i, pd := range s.Preds {
			if pd == b {
				pi = i
			}
		}
		type asg struct {
			dst string
			l   linexp
			ok  bool
		}
		var as []asg
		for _, ins := range s.Instrs {
			ph, ok := ins.(*ssa.Phi)
			if !ok {
				break
			}
			if !(isIntType(ph.Type()) || isBoolType(ph.Type())) {
				// strings: carry the length symbol
				if bt, ok := ph.Type().Underlying().(*types.Basic); ok && bt.Info()&types.IsString != 0 && pi >= 0 {
					l := e.lenLin(fr, o, ph.Edges[pi])
					as = append(as, asg{"len:" + fr.ctx + ":" + ph.Name(), l, true})
					// a length that is a remainder A - B (the rest of the input after B), or that has a sum ghost with
					// B (an index into such a rest): carry the sum length + B, bounded by A, across the join
					if a, b, _, ok := diffForm(o.k.reduce(l)); ok && a != "" && b != "" {
						as = append(as, asg{"g:" + fr.ctx + ":" + ph.Name() + ":sum:" + b, l.plus(lvar(b)), true})
					} else if vs := l.vars(); len(vs) == 1 && l.k.n == 0 && l.co[vs[0]].eq(ri(1)) {
						pre := "g:" + strings.TrimPrefix(vs[0], "v:") + ":sum:"
						for _, nm := range o.z.names {
							if strings.HasPrefix(nm, pre) {
								b := strings.TrimPrefix(nm, pre)
								as = append(as, asg{"g:" + fr.ctx + ":" + ph.Name() + ":sum:" + b, lvar(nm), true})
							}
						}
					}
				}
				e.copyStructPhi(fr, o, ph, pi)
				continue
			}
			if pi < 0 {
				continue
			}
			l, ok := e.lin(fr, ph.Edges[pi])
			as = append(as, asg{fr.v(ph.Name()), l, ok})
		}
		// two-phase: temporaries
		for i, a := range as {
			if a.ok {
				o.assign(fmt.Sprintf("tmp:%d", i), a.l, e.imp())
			}
		}
		for i, a := range as {
			if a.ok {
				o.assign(a.dst, lvar(fmt.Sprintf("tmp:%d", i)), nil)
				o.drop(fmt.Sprintf("tmp:%d", i))
			} else {
				o.forget(a.dst)
			}
		}
		// liveness: drop this function's SSA temporaries that are dead at s
		e.pruneDead(fr, li, s, o)
		return o
	}
	process := func(b *ssa.BasicBlock, st *nst) *nst {
		st = st.clone()
		if isHeader[b] && e.loopCheck {
			e.snapshotGhosts(fr, st, b)
		}
		for _, ins := range b.Instrs {
			if st.isBottom() {
				break
			}
			e.step(fr, st, ins)
		}
		return st
	}
	// join blocks that start with integer or boolean phis (and are not loop headers) are analysed once per incoming
	// edge and joined at their end: `w := 1; if big { w = decode }; end += w` needs the facts of each edge at the
	// addition, and `case a && b && c:` (a phi of conditions) needs to know which edge can make it true
	partitioned := map[*ssa.BasicBlock]bool{}
	for _, b := range fn.Blocks {
		if isHeader[b] || len(b.Preds) < 2 {
			continue
		}
		for _, ins := range b.Instrs {
			ph, ok := ins.(*ssa.Phi)
			if !ok {
				break
			}
			if isIntType(ph.Type()) || isBoolType(ph.Type()) {
				partitioned[b] = true
			}
		}
	}
	perEdge := map[*ssa.BasicBlock]map[*ssa.BasicBlock]*nst{}
	// edgeFrom: refine `out` (the state at the end of b, reached from predecessor pd when b is partitioned) along
	// successor i and assign the successor's phis
	edgeFrom := func(b *ssa.BasicBlock, out *nst, i int, pd *ssa.BasicBlock) *nst {
		if pd != nil {
			if ifi, ok := b.Instrs[len(b.Instrs)-1].(*ssa.If); ok && len(b.Succs) == 2 {
				if ph, isPhi := ifi.Cond.(*ssa.Phi); isPhi && ph.Block() == b {
					pi := -1
					for k, p := range b.Preds {
						if p == pd {
							pi = k
						}
					}
					if pi >= 0 {
						ev := ph.Edges[pi]
						if cst, isC := ev.(*ssa.Const); isC && cst.Value != nil {
							if (cst.Value.String() == "true") != (i == 0) {
								return nil // this edge cannot take that branch
							}
						} else {
							o := out.clone()
							e.refine(fr, o, ev, i == 0)
							if o.isBottom() {
								return nil
							}
							out = o
						}
					}
				}
			}
		}
		return edgeOut(b, out, i)
	}
	// succStates: the state on each outgoing edge of b (nil when infeasible)
	succStates := func(b *ssa.BasicBlock) []*nst {
		res := make([]*nst, len(b.Succs))
		if !partitioned[b] {
			out := process(b, in[b])
			if out.isBottom() {
				return res
			}
			if len(b.Succs) == 0 {
				return res
			}
			for i := range b.Succs {
				res[i] = edgeFrom(b, out, i, nil)
			}
			return res
		}
		var preds []*ssa.BasicBlock
		for pd := range perEdge[b] {
			preds = append(preds, pd)
		}
		sort.Slice(preds, func(i, j int) bool { return preds[i].Index < preds[j].Index })
		for _, pd := range preds {
			out := process(b, perEdge[b][pd])
			if out.isBottom() {
				continue
			}
			for i := range b.Succs {
				o := edgeFrom(b, out, i, pd)
				if o == nil {
					continue
				}
				if res[i] == nil {
					res[i] = o
				} else {
					res[i] = joinNst(res[i], o, false)
				}
			}
		}
		return res
	}
	work := []*ssa.BasicBlock{fn.Blocks[0]}
	inWork := map[*ssa.BasicBlock]bool{fn.Blocks[0]: true}
	for len(work) > 0 {
		// lowest index first (approximates reverse post-order)
		sort.Slice(work, func(i, j int) bool { return work[i].Index < work[j].Index })
		b := work[0]
		work = work[1:]
		inWork[b] = false
		visits[b]++
		if visits[b] > 60 {
			continue
		}
		saveRets := fr.rets
		outs := succStates(b)
		fr.rets = saveRets
		for i, s := range b.Succs {
			o := outs[i]
			if o == nil {
				continue
			}
			if partitioned[s] {
				if perEdge[s] == nil {
					perEdge[s] = map[*ssa.BasicBlock]*nst{}
				}
				if oldE, had := perEdge[s][b]; had {
					if o.leq(oldE) {
						continue
					}
					o = joinNst(oldE, o, visits[s] >= 6)
				}
				perEdge[s][b] = o
				in[s] = o // marks the block as reached
				if !inWork[s] {
					inWork[s] = true
					work = append(work, s)
				}
				continue
			}
			old, had := in[s]
			var nw *nst
			if !had {
				nw = o
			} else {
				if o.leq(old) {
					continue
				}
				widen := isHeader[s] && visits[s] >= 3 && bodies[s][b]
				if widen {
					nw = joinNst(old, joinNst(old, o, false), true)
				} else {
					nw = joinNst(old, o, false)
				}
			}
			in[s] = nw
			if !inWork[s] {
				inWork[s] = true
				work = append(work, s)
			}
		}
	}
	// narrowing: descending passes in reverse post-order — every block's entry state is recomputed from its
	// predecessors' current outputs without widening and kept when it is smaller
	rpo := reversePostOrder(fn)
	for pass := 0; pass < 3; pass++ {
		outCache := map[*ssa.BasicBlock][]*nst{}
		outOf := func(pd *ssa.BasicBlock) []*nst {
			if o, ok := outCache[pd]; ok {
				return o
			}
			saveRets := fr.rets
			o := succStates(pd)
			fr.rets = saveRets
			outCache[pd] = o
			return o
		}
		for _, b := range rpo {
			if _, ok := in[b]; !ok || b == fn.Blocks[0] {
				continue
			}
			var acc *nst
			for _, pd := range b.Preds {
				if _, ok := in[pd]; !ok {
					continue
				}
				outs := outOf(pd)
				for i, s := range pd.Succs {
					if s != b || outs[i] == nil {
						continue
					}
					o := outs[i]
					if partitioned[b] {
						if oldE, had := perEdge[b][pd]; had && o.leq(oldE) {
							perEdge[b][pd] = o
						}
						continue
					}
					if acc == nil {
						acc = o
					} else {
						acc = joinNst(acc, o, false)
					}
				}
			}
			if !partitioned[b] && acc != nil && acc.leq(in[b]) {
				in[b] = acc
			}
			delete(outCache, b)
		}
	}
	// final replay with recording
	fr.rec = rec
	fr.rets = nil
	for _, b := range fn.Blocks {
		if _, ok := in[b]; !ok {
			continue
		}
		outs := succStates(b)
		if e.loopCheck && fr.rec {
			for i, s := range b.Succs {
				if isHeader[s] && bodies[s][b] && outs[i] != nil {
					e.checkProgress(fr, outs[i], b, s)
				}
			}
		}
	}
}

func (e *absEngine) copyStructPhi(fr *frame, st *nst, ph *ssa.Phi, pi int) {
	if pi < 0 || len(e.trackedFields(ph.Type())) == 0 {
		return
	}
	e.copyStruct(fr, st, "sv:"+fr.ctx+":"+ph.Name(), e.structKey(fr, ph.Edges[pi]), ph.Type())
}

// pruneDead drops variables of SSA values of this frame that are not live at block s.
func (e *absEngine) pruneDead(fr *frame, li *liveInfo, at *ssa.BasicBlock, st *nst) {
	pre := "v:" + fr.ctx + ":"
	preL := "len:" + fr.ctx + ":"
	seen := map[string]bool{}
	for _, nm := range st.z.names[1:] {
		seen[nm] = true
	}
	for nm := range st.k.vars() {
		seen[nm] = true
	}
	var dead []string
	for nm := range seen {
		var base string
		switch {
		case strings.HasPrefix(nm, pre):
			base = nm[len(pre):]
		case strings.HasPrefix(nm, preL):
			base = nm[len(preL):]
			if strings.HasPrefix(base, "elem(") {
				// elem(base,index): live while both are
				inner := strings.TrimSuffix(strings.TrimPrefix(base, "elem("), ")")
				parts := strings.SplitN(inner, ",", 2)
				if len(parts) == 2 && (!e.nameLive(li, at, parts[0]) || !e.nameLive(li, at, parts[1])) {
					dead = append(dead, nm)
				}
				continue
			}
		default:
			continue
		}
		if i := strings.Index(base, "#"); i >= 0 {
			base = base[:i]
		}
		if !e.nameLive(li, at, base) {
			// the length of a string handed to HasPrefix/HasSuffix is needed where the result is branched on
			if strings.HasPrefix(nm, preL) {
				if v, ok := li.byName[base]; ok && v.Referrers() != nil {
					keep := false
					for _, ref := range *v.Referrers() {
						if call, isCall := ref.(*ssa.Call); isCall {
							if cn := calleeName(call); strings.HasSuffix(cn, ".HasPrefix") || strings.HasSuffix(cn, ".HasSuffix") {
								if e.nameLive(li, at, call.Name()) {
									keep = true
								}
								// the result feeds a condition phi of this very block (a && chain): the branch on it is still ahead
								if call.Referrers() != nil {
									for _, r2 := range *call.Referrers() {
										if ph, isPhi := r2.(*ssa.Phi); isPhi && ph.Block() == at {
											keep = true
										}
									}
								}
							}
						}
					}
					if keep {
						continue
					}
				}
			}
			dead = append(dead, nm)
		}
	}
	sort.Strings(dead)
	// a dead local that an equality ties to a value the function returns (count = i - end with i bounded) carries
	// the bound of that result: it stays until the frame returns
	rets := e.retFeeding(fr)
	for _, nm := range dead {
		tied := false
		if len(rets) > 0 && strings.HasPrefix(nm, pre) {
			for _, row := range st.k.rows {
				if _, has := row.co[nm]; !has {
					continue
				}
				for v := range row.co {
					if v != nm && rets[v] {
						tied = true
					}
				}
			}
		}
		if !tied {
			st.drop(nm)
		}
	}
}

// retFeeding: the names of the integer SSA values that can be returned by the frame's function (through phis).
func (e *absEngine) retFeeding(fr *frame) map[string]bool {
	if fr.retNames != nil {
		return fr.retNames
	}
	out := map[string]bool{}
	var visit func(v ssa.Value, d int)
	visit = func(v ssa.Value, d int) {
		if d > 4 || v == nil || !isIntType(v.Type()) {
			return
		}
		if _, isC := v.(*ssa.Const); isC {
			return
		}
		nm := fr.v(v.Name())
		if out[nm] {
			return
		}
		out[nm] = true
		if ph, ok := v.(*ssa.Phi); ok {
			for _, ed := range ph.Edges {
				visit(ed, d+1)
			}
		}
	}
	if fr.fn != nil && fr.ctx != "" && strings.Contains(fr.ctx, "/") {
		for _, ret := range returnsOf(fr.fn) {
			for _, rv := range returnValues(ret) {
				visit(rv, 0)
			}
		}
	}
	fr.retNames = out
	return out
}

func (e *absEngine) nameLive(li *liveInfo, at *ssa.BasicBlock, name string) bool {
	v, ok := li.byName[name]
	if !ok {
		return true // parameters and unknown names: keep
	}
	if v.Referrers() == nil {
		return true
	}
	var def *ssa.BasicBlock
	if in, isIn := v.(ssa.Instruction); isIn {
		def = in.Block()
	}
	var r map[*ssa.BasicBlock]bool
	if def != nil && def != at {
		r = reachAvoiding(at, func(b *ssa.BasicBlock) bool { return b == def }, nil)
	} else if def == at {
		if _, isPhi := v.(*ssa.Phi); isPhi {
			r = li.reach[at]
		} else {
			return false
		}
	} else {
		r = li.reach[at]
	}
	for _, ref := range *v.Referrers() {
		rb := ref.Block()
		if rb == nil {
			continue
		}
		if ph, isPhi := ref.(*ssa.Phi); isPhi {
			for i, ed := range ph.Edges {
				if ed == v && i < len(rb.Preds) && (r[rb.Preds[i]] || rb.Preds[i] == at) {
					return true
				}
			}
			continue
		}
		if r[rb] || (def != at && rb == at) {
			return true
		}
	}
	return false
}

// ---- loop progress ----

func (e *absEngine) ghostCandidates(fr *frame, h *ssa.BasicBlock) []string {
	out := []string{"c:end"}
	for _, ins := range h.Instrs {
		ph, ok := ins.(*ssa.Phi)
		if !ok {
			break
		}
		if isIntType(ph.Type()) {
			out = append(out, fr.v(ph.Name()))
		}
	}
	return out
}

func (e *absEngine) snapshotGhosts(fr *frame, st *nst, h *ssa.BasicBlock) {
	for _, c := range e.ghostCandidates(fr, h) {
		st.assign(fmt.Sprintf("g:%s:%d:%s", fr.ctx, h.Index, c), lvar(c), nil)
	}
}

func (e *absEngine) checkProgress(fr *frame, st *nst, latch, h *ssa.BasicBlock) {
	if isRangeLoop(h) {
		return // range loops over strings and slices terminate by construction
	}
	// the phi variables have just been assigned their next-iteration values on this edge
	var why []string
	ok := false
	for _, c := range e.ghostCandidates(fr, h) {
		g := fmt.Sprintf("g:%s:%d:%s", fr.ctx, h.Index, c)
		d := st.lb(lvar(c).minus(lvar(g)))
		u := st.ub(lvar(c).minus(lvar(g)))
		why = append(why, fmt.Sprintf("%s changes by [%s,%s]", strings.TrimPrefix(c, "v:"+fr.ctx+":"), bstr(d), bstr(u)))
		if d >= 1 || u <= -1 {
			ok = true
		}
	}
	pos := h.Instrs[0].Pos()
	for _, ins := range h.Instrs {
		if ins.Pos().IsValid() {
			pos = ins.Pos()
			break
		}
	}
	if !pos.IsValid() {
		pos = latch.Instrs[len(latch.Instrs)-1].Pos()
	}
	e.record(fr, pos, fmt.Sprintf("loop progress (back edge from block %d)", latch.Index), "a cursor or induction variable moves by at least 1 in one direction per iteration", ok, strings.Join(why, "; "))
}

func reversePostOrder(fn *ssa.Function) []*ssa.BasicBlock {
	seen := map[*ssa.BasicBlock]bool{}
	var post []*ssa.BasicBlock
	var dfs func(b *ssa.BasicBlock)
	dfs = func(b *ssa.BasicBlock) {
		seen[b] = true
		for _, s := range b.Succs {
			if !seen[s] {
				dfs(s)
			}
		}
		post = append(post, b)
	}
	if len(fn.Blocks) > 0 {
		dfs(fn.Blocks[0])
	}
	for i, j := 0, len(post)-1; i < j; i, j = i+1, j-1 {
		post[i], post[j] = post[j], post[i]
	}
	return post
}

func containsStr(xs []string, x string) bool {
	for _, y := range xs {
		if y == x {
			return true
		}
	}
	return false
}

// alwaysErrors: every return of g yields a non-nil last result (a constructor of errors such as makeError).
func alwaysErrors(g *ssa.Function) bool {
	rets := returnsOf(g)
	if len(rets) == 0 {
		return false
	}
	for _, ret := range rets {
		rv := returnValues(ret)
		if len(rv) == 0 {
			return false
		}
		switch stripConv(rv[len(rv)-1]).(type) {
		case *ssa.MakeInterface, *ssa.Alloc, *ssa.Call:
			// a freshly made error value (Call: gqlerror.ErrorLocf and the like return a new *Error)
		default:
			return false
		}
	}
	return true
}

// errCaseSplit: the block ends in `if err ==/!= nil` where err is the last result of a call of the package made in
// this very block with nothing but result extraction after it. The state on the chosen edge is then the join of the
// callee's return states whose error result agrees with the edge (instead of the join of all of them), with the
// extractions replayed. ok=false when the shape is not this one; (nil, true) when no return agrees.
func (e *absEngine) errCaseSplit(fr *frame, b *ssa.BasicBlock, ifi *ssa.If, truth bool) (*nst, bool) {
	c := normCond(Cond{V: ifi.Cond, True: truth})
	bo, ok := c.V.(*ssa.BinOp)
	if !ok || (bo.Op != token.EQL && bo.Op != token.NEQ) {
		return nil, false
	}
	var other ssa.Value
	switch {
	case isNilConst(bo.Y):
		other = bo.X
	case isNilConst(bo.X):
		other = bo.Y
	default:
		return nil, false
	}
	ex, ok := stripConv(other).(*ssa.Extract)
	if !ok {
		return nil, false
	}
	call, ok := ex.Tuple.(*ssa.Call)
	if !ok || call.Block() != b || ex.Index != call.Call.Signature().Results().Len()-1 {
		return nil, false
	}
	cases, ok := e.retCases[fr.ctx+":"+call.Name()]
	if !ok || len(cases) == 0 {
		return nil, false
	}
	// nothing but extraction between the call and the branch
	after := false
	var replay []ssa.Instruction
	for _, in := range b.Instrs {
		if in == ssa.Instruction(call) {
			after = true
			continue
		}
		if !after {
			continue
		}
		switch in.(type) {
		case *ssa.Extract, *ssa.BinOp, *ssa.ChangeType, *ssa.Convert, *ssa.ChangeInterface, *ssa.MakeInterface, *ssa.DebugRef, *ssa.If:
			replay = append(replay, in)
		default:
			return nil, false
		}
	}
	wantNil := (bo.Op == token.EQL) == c.True
	var out *nst
	for _, cs := range cases {
		if cs.errNil == 1 && !wantNil || cs.errNil == 0 && wantNil {
			continue
		}
		if out == nil {
			out = cs.st.clone()
		} else {
			out = joinNst(out, cs.st.clone(), false)
		}
	}
	if out == nil {
		return nil, true
	}
	for _, in := range replay {
		if _, isIf := in.(*ssa.If); isIf {
			continue
		}
		e.step(fr, out, in)
	}
	return out, true
}

// apName: the access-path length symbol of a list read from a struct field, a captured variable or a local cell.
func (e *absEngine) apName(fr *frame, x *ssa.UnOp) string {
	switch ad := x.X.(type) {
	case *ssa.FieldAddr:
		if n, f, _, ok := fieldOf(ad); ok && n != nil {
			name := "len:" + fr.ctx + ":ap:" + accessPath(x)
			if e.apField == nil {
				e.apField = map[string]fieldRef{}
			}
			e.apField[name] = fieldRef{n, f}
			return name
		}
	case *ssa.FreeVar:
		return "len:" + fr.ctx + ":ap:fv:" + ad.Name()
	case *ssa.Alloc:
		return "len:" + fr.ctx + ":ap:cell:" + ad.Name()
	}
	return ""
}

// killApLens: after instruction in (a store or a call), forget the access-path length symbols it may invalidate.
func (e *absEngine) killApLens(fr *frame, st *nst, in ssa.Instruction) {
	var names []string
	for _, nm := range st.z.names[1:] {
		if strings.Contains(nm, ":ap:") {
			names = append(names, nm)
		}
	}
	for nm := range st.k.vars() {
		if strings.Contains(nm, ":ap:") {
			names = append(names, nm)
		}
	}
	seen := map[string]bool{}
	for _, nm := range names {
		if seen[nm] {
			continue
		}
		seen[nm] = true
		kill := false
		switch x := in.(type) {
		case *ssa.Store:
			switch ad := x.Addr.(type) {
			case *ssa.FieldAddr:
				if _, f, _, ok := fieldOf(ad); ok {
					if r, has := e.apField[nm]; has && r.f == f {
						kill = true
					}
				}
			case *ssa.FreeVar:
				kill = strings.HasSuffix(nm, ":ap:fv:"+ad.Name())
			case *ssa.Alloc:
				kill = strings.HasSuffix(nm, ":ap:cell:"+ad.Name())
			}
		case ssa.CallInstruction:
			if _, isB := x.Common().Value.(*ssa.Builtin); isB {
				continue
			}
			if g := x.Common().StaticCallee(); g != nil {
				if r, has := e.apField[nm]; has {
					kill = fieldStoredBy(in, r.st, r.f, 0)
				} else {
					// a captured variable or local cell: a closure of this function may assign it
					kill = g.Parent() != nil
				}
			} else {
				kill = true // a call through a function value or an interface
			}
		}
		if kill {
			st.forget(nm)
			st.z.add("", nm, 0)
		}
	}
}
