#!/bin/sh
# builds the checker from files on disk only (x/tools v0.29.0 is in the module cache)
set -eu
cd "$(dirname "$0")/checker"
export GOFLAGS=-mod=mod GOPROXY=off GOSUMDB=off GOTOOLCHAIN=local GOWORK=off
mkdir -p ../bin ../evidence/replay
go build -o ../bin/gqlvet .
